package h264

// ScalingList is the value record of one scaling_list( ) (7.3.2.1.1.1): the
// delta_scale values in coding order. The serializer consumes as many as the
// syntax asks for (none after nextScale became 0); missing values count as 0.
type ScalingList struct {
	Deltas []int64
}

// HRD is hrd_parameters( ) of E.1.2.
type HRD struct {
	BitRateScale                       uint8 // u(4)
	CpbSizeScale                       uint8 // u(4)
	Cpb                                []CpbEntry
	InitialCpbRemovalDelayLengthMinus1 uint8 // u(5)
	CpbRemovalDelayLengthMinus1        uint8
	DpbOutputDelayLengthMinus1         uint8
	TimeOffsetLength                   uint8
}

// CpbEntry is one SchedSelIdx entry of hrd_parameters( ).
type CpbEntry struct {
	BitRateValueMinus1 uint64
	CpbSizeValueMinus1 uint64
	Cbr                bool
}

// VUI is vui_parameters( ) of E.1.1.
type VUI struct {
	AspectRatioInfoPresent         bool
	AspectRatioIdc                 uint8
	SarWidth, SarHeight            uint16
	OverscanInfoPresent            bool
	OverscanAppropriate            bool
	VideoSignalTypePresent         bool
	VideoFormat                    uint8
	VideoFullRange                 bool
	ColourDescriptionPresent       bool
	ColourPrimaries                uint8
	TransferCharacteristics        uint8
	MatrixCoefficients             uint8
	ChromaLocInfoPresent           bool
	ChromaSampleLocTypeTopField    uint64
	ChromaSampleLocTypeBottomField uint64
	TimingInfoPresent              bool
	NumUnitsInTick, TimeScale      uint32
	FixedFrameRate                 bool
	NalHrd, VclHrd                 *HRD
	LowDelayHrd                    bool
	PicStructPresent               bool
	BitstreamRestriction           bool
	MotionVectorsOverPicBoundaries bool
	MaxBytesPerPicDenom            uint64
	MaxBitsPerMbDenom              uint64
	Log2MaxMvLengthHorizontal      uint64
	Log2MaxMvLengthVertical        uint64
	MaxNumReorderFrames            uint64
	MaxDecFrameBuffering           uint64
}

// SPS is the value record of seq_parameter_set_data( ).
type SPS struct {
	ProfileIdc      uint8
	ConstraintFlags uint8 // constraint_set0..5_flag and reserved_zero_2bits as one byte
	LevelIdc        uint8
	ID              uint64
	// coded only for the profiles of HasHighBlock
	ChromaFormatIdc      uint64
	SeparateColourPlane  bool
	BitDepthLumaMinus8   uint64
	BitDepthChromaMinus8 uint64
	QpprimeYZeroBypass   bool
	ScalingMatrixPresent bool
	ScalingLists         []*ScalingList // 8 or 12 entries, nil = seq_scaling_list_present_flag 0

	Log2MaxFrameNumMinus4     uint64
	PocType                   uint64
	Log2MaxPocLsbMinus4       uint64
	DeltaPicOrderAlwaysZero   bool
	OffsetForNonRefPic        int64
	OffsetForTopToBottomField int64
	OffsetForRefFrame         []int64
	MaxNumRefFrames           uint64
	GapsInFrameNumAllowed     bool
	PicWidthInMbsMinus1       uint64
	PicHeightInMapUnitsMinus1 uint64
	FrameMbsOnly              bool
	MbAdaptiveFrameField      bool
	Direct8x8Inference        bool
	FrameCropping             bool
	CropLeft, CropRight       uint64
	CropTop, CropBottom       uint64
	VUI                       *VUI
}

// HasHighBlock tells whether profile_idc is in the list of 7.3.2.1.1 that
// carries chroma_format_idc ... seq_scaling_matrix.
func HasHighBlock(profile uint8) bool {
	switch profile {
	case 100, 110, 122, 244, 44, 83, 86, 118, 128, 138, 139, 134, 135:
		return true
	}
	return false
}

// Chroma returns chroma_format_idc (inferred 1 when not coded).
func (s *SPS) Chroma() uint64 {
	if HasHighBlock(s.ProfileIdc) {
		return s.ChromaFormatIdc
	}
	return 1
}

// ChromaArrayType of 7.4.2.1.1.
func (s *SPS) ChromaArrayType() uint64 {
	if HasHighBlock(s.ProfileIdc) && s.ChromaFormatIdc == 3 && s.SeparateColourPlane {
		return 0
	}
	return s.Chroma()
}

// SeparatePlanes tells whether separate_colour_plane_flag is coded as 1.
func (s *SPS) SeparatePlanes() bool {
	return HasHighBlock(s.ProfileIdc) && s.ChromaFormatIdc == 3 && s.SeparateColourPlane
}

// PicSizeInMapUnits = PicWidthInMbs * PicHeightInMapUnits (7-14..7-17).
func (s *SPS) PicSizeInMapUnits() uint64 {
	return (s.PicWidthInMbsMinus1 + 1) * (s.PicHeightInMapUnitsMinus1 + 1)
}

// FrameSizeInMbs = PicWidthInMbs * FrameHeightInMbs.
func (s *SPS) FrameSizeInMbs() uint64 {
	h := s.PicHeightInMapUnitsMinus1 + 1
	if !s.FrameMbsOnly {
		h *= 2
	}
	return (s.PicWidthInMbsMinus1 + 1) * h
}

// CropUnits returns CropUnitX, CropUnitY (7-19..7-22).
func (s *SPS) CropUnits() (uint64, uint64) {
	f := uint64(1)
	if !s.FrameMbsOnly {
		f = 2
	}
	if s.ChromaArrayType() == 0 {
		return 1, f
	}
	subW, subH := uint64(1), uint64(1)
	switch s.Chroma() {
	case 1:
		subW, subH = 2, 2
	case 2:
		subW, subH = 2, 1
	}
	return subW, subH * f
}

// Dimensions applies the cropping formula of 7.4.2.1.1 (E-? display size):
// width = 16*PicWidthInMbs - CropUnitX*(left+right),
// height = 16*FrameHeightInMbs - CropUnitY*(top+bottom).
func (s *SPS) Dimensions() (uint64, uint64) {
	w := 16 * (s.PicWidthInMbsMinus1 + 1)
	h := 16 * (s.PicHeightInMapUnitsMinus1 + 1)
	if !s.FrameMbsOnly {
		h *= 2
	}
	if s.FrameCropping {
		cx, cy := s.CropUnits()
		w -= cx * (s.CropLeft + s.CropRight)
		h -= cy * (s.CropTop + s.CropBottom)
	}
	return w, h
}

// EmitScalingList writes one scaling_list( ) of sizeOfScalingList entries and
// records the resulting list ("#<prefix>.ScalingList[i][j]") unless
// useDefaultScalingMatrixFlag was derived ("#<prefix>.UseDefault[i]" = 1).
func EmitScalingList(e *Enc, prefix string, i int, sl *ScalingList, size int) {
	last, next := int64(8), int64(8)
	k := 0
	useDefault := false
	vals := make([]int64, size)
	for j := 0; j < size; j++ {
		if next != 0 {
			var d int64
			if sl != nil && k < len(sl.Deltas) {
				d = sl.Deltas[k]
			}
			k++
			e.SE(Idx2(prefix+".delta_scale", i, j), d)
			next = (last + d + 256) % 256
			if j == 0 && next == 0 {
				useDefault = true
			}
			if next == 0 && j > 0 {
				e.Branch(prefix + ".scaling_list/early-stop")
			}
		}
		if next == 0 {
			vals[j] = last
		} else {
			vals[j] = next
		}
		last = vals[j]
	}
	if useDefault {
		e.Branch(prefix + ".scaling_list/use-default")
		e.Derived(Idx(prefix+".UseDefault", i), 1)
		return
	}
	e.Derived(Idx(prefix+".UseDefault", i), 0)
	for j, v := range vals {
		e.Derived(Idx2(prefix+".ScalingList", i, j), v)
	}
}

func emitHRD(e *Enc, p string, h *HRD) {
	e.UE(p+".cpb_cnt_minus1", uint64(len(h.Cpb)-1))
	e.U(p+".bit_rate_scale", uint64(h.BitRateScale), 4)
	e.U(p+".cpb_size_scale", uint64(h.CpbSizeScale), 4)
	for i, c := range h.Cpb {
		e.UE(Idx(p+".bit_rate_value_minus1", i), c.BitRateValueMinus1)
		e.UE(Idx(p+".cpb_size_value_minus1", i), c.CpbSizeValueMinus1)
		e.Flag(Idx(p+".cbr_flag", i), c.Cbr)
	}
	e.U(p+".initial_cpb_removal_delay_length_minus1", uint64(h.InitialCpbRemovalDelayLengthMinus1), 5)
	e.U(p+".cpb_removal_delay_length_minus1", uint64(h.CpbRemovalDelayLengthMinus1), 5)
	e.U(p+".dpb_output_delay_length_minus1", uint64(h.DpbOutputDelayLengthMinus1), 5)
	e.U(p+".time_offset_length", uint64(h.TimeOffsetLength), 5)
}

func emitVUI(e *Enc, v *VUI) {
	e.Flag("aspect_ratio_info_present_flag", v.AspectRatioInfoPresent)
	if v.AspectRatioInfoPresent {
		e.U("aspect_ratio_idc", uint64(v.AspectRatioIdc), 8)
		switch {
		case v.AspectRatioIdc == 255:
			e.Branch("vui/extended-sar")
			e.U("sar_width", uint64(v.SarWidth), 16)
			e.U("sar_height", uint64(v.SarHeight), 16)
		case v.AspectRatioIdc == 0:
			e.Branch("vui/aspect_ratio_idc=0")
		case int(v.AspectRatioIdc) < len(SARTable):
			e.Branch("vui/table-sar")
			e.Derived("sar_width", int64(SARTable[v.AspectRatioIdc][0]))
			e.Derived("sar_height", int64(SARTable[v.AspectRatioIdc][1]))
		}
	}
	e.MarkEnd("vui_aspect")
	e.Flag("overscan_info_present_flag", v.OverscanInfoPresent)
	if v.OverscanInfoPresent {
		e.Flag("overscan_appropriate_flag", v.OverscanAppropriate)
	}
	e.Flag("video_signal_type_present_flag", v.VideoSignalTypePresent)
	if v.VideoSignalTypePresent {
		e.U("video_format", uint64(v.VideoFormat), 3)
		e.Flag("video_full_range_flag", v.VideoFullRange)
		e.Flag("colour_description_present_flag", v.ColourDescriptionPresent)
		if v.ColourDescriptionPresent {
			e.Branch("vui/colour-description")
			e.U("colour_primaries", uint64(v.ColourPrimaries), 8)
			e.U("transfer_characteristics", uint64(v.TransferCharacteristics), 8)
			e.U("matrix_coefficients", uint64(v.MatrixCoefficients), 8)
		}
	}
	e.Flag("chroma_loc_info_present_flag", v.ChromaLocInfoPresent)
	if v.ChromaLocInfoPresent {
		e.UE("chroma_sample_loc_type_top_field", v.ChromaSampleLocTypeTopField)
		e.UE("chroma_sample_loc_type_bottom_field", v.ChromaSampleLocTypeBottomField)
	}
	e.Flag("timing_info_present_flag", v.TimingInfoPresent)
	if v.TimingInfoPresent {
		e.U("num_units_in_tick", uint64(v.NumUnitsInTick), 32)
		e.U("time_scale", uint64(v.TimeScale), 32)
		e.Flag("fixed_frame_rate_flag", v.FixedFrameRate)
	}
	e.Flag("nal_hrd_parameters_present_flag", v.NalHrd != nil)
	if v.NalHrd != nil {
		e.Branch("vui/nal-hrd")
		emitHRD(e, "nal_hrd", v.NalHrd)
	}
	e.Flag("vcl_hrd_parameters_present_flag", v.VclHrd != nil)
	if v.VclHrd != nil {
		e.Branch("vui/vcl-hrd")
		emitHRD(e, "vcl_hrd", v.VclHrd)
	}
	if v.NalHrd != nil || v.VclHrd != nil {
		e.Flag("low_delay_hrd_flag", v.LowDelayHrd)
	}
	e.Flag("pic_struct_present_flag", v.PicStructPresent)
	e.Flag("bitstream_restriction_flag", v.BitstreamRestriction)
	if v.BitstreamRestriction {
		e.Branch("vui/bitstream-restriction")
		e.Flag("motion_vectors_over_pic_boundaries_flag", v.MotionVectorsOverPicBoundaries)
		e.UE("max_bytes_per_pic_denom", v.MaxBytesPerPicDenom)
		e.UE("max_bits_per_mb_denom", v.MaxBitsPerMbDenom)
		e.UE("log2_max_mv_length_horizontal", v.Log2MaxMvLengthHorizontal)
		e.UE("log2_max_mv_length_vertical", v.Log2MaxMvLengthVertical)
		e.UE("max_num_reorder_frames", v.MaxNumReorderFrames)
		e.UE("max_dec_frame_buffering", v.MaxDecFrameBuffering)
	}
}

// NumScalingLists is the number of seq_scaling_list_present_flag entries.
func (s *SPS) NumScalingLists() int {
	if s.ChromaFormatIdc != 3 {
		return 8
	}
	return 12
}

// Encode emits the SPS NAL unit (nal_unit_type 7).
func (s *SPS) Encode(nalRefIdc uint) *Coded {
	e := &Enc{}
	e.U("profile_idc", uint64(s.ProfileIdc), 8)
	e.U("constraint_flags", uint64(s.ConstraintFlags), 8)
	e.U("level_idc", uint64(s.LevelIdc), 8)
	e.UE("seq_parameter_set_id", s.ID)
	if HasHighBlock(s.ProfileIdc) {
		e.Branch("sps/high-profile-block")
		e.UE("chroma_format_idc", s.ChromaFormatIdc)
		e.Branch(Idx("sps/chroma_format_idc", int(s.ChromaFormatIdc)))
		if s.ChromaFormatIdc == 3 {
			e.Flag("separate_colour_plane_flag", s.SeparateColourPlane)
			if s.SeparateColourPlane {
				e.Branch("sps/separate-colour-planes")
			}
		}
		e.UE("bit_depth_luma_minus8", s.BitDepthLumaMinus8)
		e.UE("bit_depth_chroma_minus8", s.BitDepthChromaMinus8)
		e.Flag("qpprime_y_zero_transform_bypass_flag", s.QpprimeYZeroBypass)
		e.Flag("seq_scaling_matrix_present_flag", s.ScalingMatrixPresent)
		if s.ScalingMatrixPresent {
			e.Branch("sps/scaling-matrix")
			for i := 0; i < s.NumScalingLists(); i++ {
				var sl *ScalingList
				if i < len(s.ScalingLists) {
					sl = s.ScalingLists[i]
				}
				e.Flag(Idx("seq_scaling_list_present_flag", i), sl != nil)
				if sl != nil {
					size := 16
					if i >= 6 {
						size = 64
					}
					EmitScalingList(e, "seq", i, sl, size)
				}
			}
		}
	} else {
		e.Branch("sps/no-high-profile-block")
	}
	e.UE("log2_max_frame_num_minus4", s.Log2MaxFrameNumMinus4)
	e.UE("pic_order_cnt_type", s.PocType)
	e.Branch(Idx("sps/pic_order_cnt_type", int(s.PocType)))
	switch s.PocType {
	case 0:
		e.UE("log2_max_pic_order_cnt_lsb_minus4", s.Log2MaxPocLsbMinus4)
	case 1:
		e.Flag("delta_pic_order_always_zero_flag", s.DeltaPicOrderAlwaysZero)
		e.SE("offset_for_non_ref_pic", s.OffsetForNonRefPic)
		e.SE("offset_for_top_to_bottom_field", s.OffsetForTopToBottomField)
		e.UE("num_ref_frames_in_pic_order_cnt_cycle", uint64(len(s.OffsetForRefFrame)))
		for i, o := range s.OffsetForRefFrame {
			e.SE(Idx("offset_for_ref_frame", i), o)
		}
	}
	e.UE("max_num_ref_frames", s.MaxNumRefFrames)
	e.Flag("gaps_in_frame_num_value_allowed_flag", s.GapsInFrameNumAllowed)
	e.UE("pic_width_in_mbs_minus1", s.PicWidthInMbsMinus1)
	e.UE("pic_height_in_map_units_minus1", s.PicHeightInMapUnitsMinus1)
	e.Flag("frame_mbs_only_flag", s.FrameMbsOnly)
	if !s.FrameMbsOnly {
		e.Branch("sps/field-or-mbaff")
		e.Flag("mb_adaptive_frame_field_flag", s.MbAdaptiveFrameField)
	}
	e.Flag("direct_8x8_inference_flag", s.Direct8x8Inference)
	e.Flag("frame_cropping_flag", s.FrameCropping)
	if s.FrameCropping {
		e.Branch("sps/cropping")
		e.UE("frame_crop_left_offset", s.CropLeft)
		e.UE("frame_crop_right_offset", s.CropRight)
		e.UE("frame_crop_top_offset", s.CropTop)
		e.UE("frame_crop_bottom_offset", s.CropBottom)
	}
	w, h := s.Dimensions()
	e.Derived("Width", int64(w))
	e.Derived("Height", int64(h))
	e.Flag("vui_parameters_present_flag", s.VUI != nil)
	e.MarkEnd("before_vui")
	if s.VUI != nil {
		e.Branch("sps/vui")
		emitVUI(e, s.VUI)
	}
	e.MarkEnd("sps_data")
	return e.Finish([]byte{byte(nalRefIdc&3)<<5 | 7}, true, 0)
}

// ---------------------------------------------------------------------------
// generator

var profiles = []int{66, 77, 88, 100, 110, 122, 244, 44, 83, 86, 118, 128, 138, 139, 134, 135}
var levels = []int{9, 10, 11, 12, 13, 20, 21, 22, 30, 31, 32, 40, 41, 42, 50, 51, 52, 60, 61, 62}

// GenScalingList draws a scaling list record.
func GenScalingList(r Rng, size int) *ScalingList {
	sl := &ScalingList{}
	mode := r.Intn(8)
	last := int64(8)
	for j := 0; j < size; j++ {
		var d int64
		switch {
		case mode == 0 && j == 0:
			d = -8 // nextScale 0 at j=0: useDefaultScalingMatrixFlag
		case mode == 1 && j == 1+r.Intn(size-1):
			d = -last // early stop: rest of the list repeats lastScale
			if last > 128 {
				d = 256 - last
			}
		case mode == 2:
			d = int64(Range(r, -128, 127))
		default:
			d = int64(Range(r, -6, 6))
		}
		sl.Deltas = append(sl.Deltas, d)
		next := (last + d + 256) % 256
		if next == 0 {
			break
		}
		last = next
	}
	return sl
}

// GenHRD draws hrd_parameters.
func GenHRD(r Rng) *HRD {
	h := &HRD{BitRateScale: uint8(r.Intn(16)), CpbSizeScale: uint8(r.Intn(16)),
		InitialCpbRemovalDelayLengthMinus1: uint8(r.Intn(32)), CpbRemovalDelayLengthMinus1: uint8(r.Intn(32)),
		DpbOutputDelayLengthMinus1: uint8(r.Intn(32)), TimeOffsetLength: uint8(r.Intn(32))}
	n := 1
	switch r.Intn(6) {
	case 0:
		n = Range(r, 2, 4)
	case 1:
		n = Range(r, 1, 32)
	}
	for i := 0; i < n; i++ {
		c := CpbEntry{Cbr: Chance(r, 1, 2)}
		c.BitRateValueMinus1 = genBig(r)
		c.CpbSizeValueMinus1 = genBig(r)
		h.Cpb = append(h.Cpb, c)
	}
	return h
}

// genBig draws a value of a ue(v) element with range 0..2^32-2.
func genBig(r Rng) uint64 {
	switch r.Intn(6) {
	case 0:
		return 0
	case 1:
		return 1<<32 - 2
	case 2:
		return uint64(r.Intn(1 << 16))
	case 3:
		return uint64(1)<<uint(r.Intn(32)) - 1
	}
	return r.Uint64() % (1<<32 - 1)
}

// GenVUI draws vui_parameters. allowIdc0 permits aspect_ratio_idc 0 (Unspecified).
func GenVUI(r Rng, allowIdc0 bool) *VUI {
	v := &VUI{}
	b := func() bool { return Chance(r, 1, 2) }
	v.AspectRatioInfoPresent = b()
	if v.AspectRatioInfoPresent {
		switch {
		case Chance(r, 1, 3):
			v.AspectRatioIdc = 255
			v.SarWidth = uint16(Pick(r, 0, 1, 65535, r.Intn(65536)))
			v.SarHeight = uint16(Pick(r, 0, 1, 65535, r.Intn(65536)))
		case allowIdc0 && Chance(r, 1, 8):
			v.AspectRatioIdc = 0
		default:
			v.AspectRatioIdc = uint8(Range(r, 1, 16))
		}
	}
	v.OverscanInfoPresent, v.OverscanAppropriate = b(), b()
	v.VideoSignalTypePresent = b()
	v.VideoFormat = uint8(r.Intn(8))
	v.VideoFullRange = b()
	v.ColourDescriptionPresent = b()
	v.ColourPrimaries, v.TransferCharacteristics, v.MatrixCoefficients = uint8(r.Intn(256)), uint8(r.Intn(256)), uint8(r.Intn(256))
	v.ChromaLocInfoPresent = b()
	v.ChromaSampleLocTypeTopField, v.ChromaSampleLocTypeBottomField = uint64(r.Intn(6)), uint64(r.Intn(6))
	v.TimingInfoPresent = b()
	v.NumUnitsInTick = uint32(Pick(r, 1, 1001, 1<<32-1, int(r.Uint64()&0xffffffff)))
	v.TimeScale = uint32(Pick(r, 50, 60000, 1<<32-1, int(r.Uint64()&0xffffffff)))
	v.FixedFrameRate = b()
	if Chance(r, 1, 3) {
		v.NalHrd = GenHRD(r)
	}
	if Chance(r, 1, 3) {
		v.VclHrd = GenHRD(r)
	}
	v.LowDelayHrd = b()
	v.PicStructPresent = b()
	v.BitstreamRestriction = b()
	v.MotionVectorsOverPicBoundaries = b()
	v.MaxBytesPerPicDenom = uint64(r.Intn(17))
	v.MaxBitsPerMbDenom = uint64(r.Intn(17))
	v.Log2MaxMvLengthHorizontal = uint64(r.Intn(17))
	v.Log2MaxMvLengthVertical = uint64(r.Intn(17))
	v.MaxDecFrameBuffering = uint64(r.Intn(17))
	v.MaxNumReorderFrames = uint64(r.Intn(int(v.MaxDecFrameBuffering) + 1))
	return v
}

func genOffset(r Rng) int64 {
	switch r.Intn(6) {
	case 0:
		return 0
	case 1:
		return int64(Pick(r, 1, -1, 2, -2))
	case 2:
		return int64(Pick(r, 1<<31-1, -(1<<31 - 1)))
	case 3:
		return int64(Range(r, -70000, 70000))
	}
	return int64(Range(r, -300, 300))
}

// GenOpt steers GenSPS.
type GenOpt struct {
	NoAspectIdc0 bool // never draw aspect_ratio_idc 0
	SmallPicture bool // at most 64x64 macroblocks (keeps slice_group_id loops short)
}

// GenSPS draws a syntactically valid SPS record with the given id.
func GenSPS(r Rng, id uint64, opt GenOpt) *SPS {
	s := &SPS{ID: id}
	s.ProfileIdc = uint8(profiles[r.Intn(len(profiles))])
	if Chance(r, 1, 2) {
		s.ProfileIdc = uint8(Pick(r, 66, 77, 100, 100, 110, 122, 244))
	}
	s.ConstraintFlags = uint8(r.Intn(64)) << 2
	if Chance(r, 1, 8) {
		s.ConstraintFlags = uint8(r.Intn(256))
	}
	s.LevelIdc = uint8(levels[r.Intn(len(levels))])
	if Chance(r, 1, 8) {
		s.LevelIdc = uint8(r.Intn(256))
	}
	if HasHighBlock(s.ProfileIdc) {
		s.ChromaFormatIdc = uint64(Pick(r, 0, 1, 1, 1, 2, 3, 3))
		if s.ChromaFormatIdc == 3 {
			s.SeparateColourPlane = Chance(r, 1, 2)
		}
		s.BitDepthLumaMinus8 = uint64(Pick(r, 0, 0, 2, 4, r.Intn(7)))
		s.BitDepthChromaMinus8 = uint64(Pick(r, 0, 0, 2, 4, r.Intn(7)))
		s.QpprimeYZeroBypass = Chance(r, 1, 4)
		s.ScalingMatrixPresent = Chance(r, 1, 3)
		if s.ScalingMatrixPresent {
			n := s.NumScalingLists()
			s.ScalingLists = make([]*ScalingList, n)
			for i := 0; i < n; i++ {
				if Chance(r, 1, 2) {
					size := 16
					if i >= 6 {
						size = 64
					}
					s.ScalingLists[i] = GenScalingList(r, size)
				}
			}
		}
	}
	s.Log2MaxFrameNumMinus4 = uint64(Pick(r, 0, 4, 12, r.Intn(13)))
	s.PocType = uint64(Pick(r, 0, 0, 1, 2))
	s.Log2MaxPocLsbMinus4 = uint64(Pick(r, 0, 2, 12, r.Intn(13)))
	s.DeltaPicOrderAlwaysZero = Chance(r, 1, 3)
	if s.PocType == 1 {
		s.OffsetForNonRefPic = genOffset(r)
		s.OffsetForTopToBottomField = genOffset(r)
		n := Pick(r, 0, 1, 2, 3, r.Intn(9), 255)
		if n == 255 && !Chance(r, 1, 8) {
			n = r.Intn(16)
		}
		for i := 0; i < n; i++ {
			s.OffsetForRefFrame = append(s.OffsetForRefFrame, genOffset(r))
		}
	}
	s.MaxNumRefFrames = uint64(r.Intn(17))
	s.GapsInFrameNumAllowed = Chance(r, 1, 4)
	maxMb := 256
	if opt.SmallPicture {
		maxMb = 64
	}
	dim := func() uint64 {
		switch r.Intn(8) {
		case 0:
			return 0
		case 1:
			return uint64(Pick(r, 10, 19, 21, 39, 44, 67, 79, 119, 134, 239) % maxMb)
		case 2:
			if !opt.SmallPicture {
				return uint64(Pick(r, 255, 479, 511, 1023))
			}
		}
		return uint64(r.Intn(maxMb))
	}
	s.PicWidthInMbsMinus1 = dim()
	s.PicHeightInMapUnitsMinus1 = dim()
	s.FrameMbsOnly = !Chance(r, 1, 3)
	if !s.FrameMbsOnly {
		s.MbAdaptiveFrameField = Chance(r, 1, 2)
		s.Direct8x8Inference = true
	} else {
		s.Direct8x8Inference = Chance(r, 1, 2)
	}
	s.FrameCropping = Chance(r, 1, 2)
	if s.FrameCropping {
		cx, cy := s.CropUnits()
		wUnits := 16 * (s.PicWidthInMbsMinus1 + 1) / cx
		hMb := s.PicHeightInMapUnitsMinus1 + 1
		if !s.FrameMbsOnly {
			hMb *= 2
		}
		hUnits := 16 * hMb / cy
		split := func(units uint64) (uint64, uint64) {
			// a+b <= units-1
			var tot uint64
			switch r.Intn(4) {
			case 0:
				tot = units - 1
			case 1:
				tot = uint64(r.Intn(int(units)))
			default:
				m := units
				if m > 16 {
					m = 16
				}
				tot = uint64(r.Intn(int(m)))
			}
			a := uint64(r.Intn(int(tot) + 1))
			if Chance(r, 1, 3) {
				a = 0
			}
			return a, tot - a
		}
		s.CropLeft, s.CropRight = split(wUnits)
		s.CropTop, s.CropBottom = split(hUnits)
	}
	if Chance(r, 1, 2) {
		s.VUI = GenVUI(r, !opt.NoAspectIdc0)
	}
	return s
}
