package h264

// PPS is the value record of pic_parameter_set_rbsp( ) (7.3.2.2).
type PPS struct {
	ID, SPSID                         uint64
	EntropyCodingMode                 bool
	BottomFieldPicOrderInFramePresent bool
	NumSliceGroupsMinus1              uint64
	SliceGroupMapType                 uint64
	RunLengthMinus1                   []uint64 // type 0: num_slice_groups_minus1+1 entries
	TopLeft, BottomRight              []uint64 // type 2: num_slice_groups_minus1 entries
	SliceGroupChangeDirection         bool     // types 3..5
	SliceGroupChangeRateMinus1        uint64
	SliceGroupId                      []uint64 // type 6: pic_size_in_map_units_minus1+1 entries
	NumRefIdxL0DefaultActiveMinus1    uint64
	NumRefIdxL1DefaultActiveMinus1    uint64
	WeightedPred                      bool
	WeightedBipredIdc                 uint64
	PicInitQpMinus26                  int64
	PicInitQsMinus26                  int64
	ChromaQpIndexOffset               int64
	DeblockingFilterControlPresent    bool
	ConstrainedIntraPred              bool
	RedundantPicCntPresent            bool
	// the part guarded by more_rbsp_data( )
	HasExt                    bool
	Transform8x8Mode          bool
	PicScalingMatrixPresent   bool
	ScalingLists              []*ScalingList // 6 + (chroma_format_idc != 3 ? 2 : 6) * transform_8x8_mode_flag
	SecondChromaQpIndexOffset int64
}

// NumScalingLists is the number of pic_scaling_list_present_flag entries.
func (p *PPS) NumScalingLists(sps *SPS) int {
	n := 6
	if p.Transform8x8Mode {
		if sps.Chroma() != 3 {
			n += 2
		} else {
			n += 6
		}
	}
	return n
}

// Encode emits the PPS NAL unit (nal_unit_type 8). sps is the SPS the PPS
// refers to (needed for chroma_format_idc in the scaling-list count).
func (p *PPS) Encode(sps *SPS, nalRefIdc uint) *Coded {
	e := &Enc{}
	e.UE("pic_parameter_set_id", p.ID)
	e.UE("seq_parameter_set_id", p.SPSID)
	e.Flag("entropy_coding_mode_flag", p.EntropyCodingMode)
	e.Flag("bottom_field_pic_order_in_frame_present_flag", p.BottomFieldPicOrderInFramePresent)
	e.UE("num_slice_groups_minus1", p.NumSliceGroupsMinus1)
	if p.NumSliceGroupsMinus1 > 0 {
		e.UE("slice_group_map_type", p.SliceGroupMapType)
		e.Branch(Idx("pps/slice_group_map_type", int(p.SliceGroupMapType)))
		switch p.SliceGroupMapType {
		case 0:
			for i := 0; i <= int(p.NumSliceGroupsMinus1); i++ {
				e.UE(Idx("run_length_minus1", i), p.RunLengthMinus1[i])
			}
			e.Derived("len(run_length_minus1)", int64(p.NumSliceGroupsMinus1+1))
		case 2:
			for i := 0; i < int(p.NumSliceGroupsMinus1); i++ {
				e.UE(Idx("top_left", i), p.TopLeft[i])
				e.UE(Idx("bottom_right", i), p.BottomRight[i])
			}
			e.Derived("len(top_left)", int64(p.NumSliceGroupsMinus1))
		case 3, 4, 5:
			e.Flag("slice_group_change_direction_flag", p.SliceGroupChangeDirection)
			e.UE("slice_group_change_rate_minus1", p.SliceGroupChangeRateMinus1)
		case 6:
			e.UE("pic_size_in_map_units_minus1", uint64(len(p.SliceGroupId)-1))
			n := CeilLog2(p.NumSliceGroupsMinus1 + 1)
			for i, g := range p.SliceGroupId {
				e.U(Idx("slice_group_id", i), g, n)
			}
			e.Derived("len(slice_group_id)", int64(len(p.SliceGroupId)))
		}
	} else {
		e.Branch("pps/one-slice-group")
	}
	e.UE("num_ref_idx_l0_default_active_minus1", p.NumRefIdxL0DefaultActiveMinus1)
	e.UE("num_ref_idx_l1_default_active_minus1", p.NumRefIdxL1DefaultActiveMinus1)
	e.Flag("weighted_pred_flag", p.WeightedPred)
	e.U("weighted_bipred_idc", p.WeightedBipredIdc, 2)
	e.SE("pic_init_qp_minus26", p.PicInitQpMinus26)
	e.SE("pic_init_qs_minus26", p.PicInitQsMinus26)
	e.SE("chroma_qp_index_offset", p.ChromaQpIndexOffset)
	e.Flag("deblocking_filter_control_present_flag", p.DeblockingFilterControlPresent)
	e.Flag("constrained_intra_pred_flag", p.ConstrainedIntraPred)
	e.Flag("redundant_pic_cnt_present_flag", p.RedundantPicCntPresent)
	if p.HasExt {
		e.Branch("pps/more-rbsp-data")
		e.Flag("transform_8x8_mode_flag", p.Transform8x8Mode)
		e.Flag("pic_scaling_matrix_present_flag", p.PicScalingMatrixPresent)
		if p.PicScalingMatrixPresent {
			e.Branch("pps/scaling-matrix")
			if p.Transform8x8Mode {
				e.Branch("pps/scaling-matrix+8x8")
			} else {
				e.Branch("pps/scaling-matrix-without-8x8")
			}
			n := p.NumScalingLists(sps)
			for i := 0; i < n; i++ {
				var sl *ScalingList
				if i < len(p.ScalingLists) {
					sl = p.ScalingLists[i]
				}
				e.Flag(Idx("pic_scaling_list_present_flag", i), sl != nil)
				if sl != nil {
					size := 16
					if i >= 6 {
						size = 64
					}
					EmitScalingList(e, "pic", i, sl, size)
				}
			}
			e.Derived("len(pic_scaling_list)", int64(n))
		}
		e.SE("second_chroma_qp_index_offset", p.SecondChromaQpIndexOffset)
	} else {
		e.Branch("pps/no-more-rbsp-data")
	}
	return e.Finish([]byte{byte(nalRefIdc&3)<<5 | 8}, true, 0)
}

// PPSOpt steers GenPPS.
type PPSOpt struct {
	NoSliceGroups    bool // num_slice_groups_minus1 = 0
	SliceGroupIdRuns bool // map type 6: slice_group_id drawn in runs of equal ids (mostly 0), so that the PPS carries zero bytes and emulation prevention bytes
}

// GenPPS draws a syntactically valid PPS record referring to sps.
func GenPPS(r Rng, id uint64, sps *SPS, opt PPSOpt) *PPS {
	p := &PPS{ID: id, SPSID: sps.ID}
	b := func() bool { return Chance(r, 1, 2) }
	p.EntropyCodingMode = b()
	p.BottomFieldPicOrderInFramePresent = b()
	units := sps.PicSizeInMapUnits()
	if !opt.NoSliceGroups && Chance(r, 1, 4) && units >= 8 {
		p.NumSliceGroupsMinus1 = uint64(Range(r, 1, 7))
		p.SliceGroupMapType = uint64(r.Intn(7))
		if p.SliceGroupMapType == 6 && units > 4096 {
			p.SliceGroupMapType = uint64(Pick(r, 0, 1, 2, 3, 4, 5))
		}
		n := int(p.NumSliceGroupsMinus1)
		switch p.SliceGroupMapType {
		case 0:
			for i := 0; i <= n; i++ {
				p.RunLengthMinus1 = append(p.RunLengthMinus1, uint64(r.Intn(int(units))))
			}
		case 2:
			for i := 0; i < n; i++ {
				br := uint64(r.Intn(int(units)))
				tl := uint64(r.Intn(int(br) + 1))
				p.TopLeft = append(p.TopLeft, tl)
				p.BottomRight = append(p.BottomRight, br)
			}
		case 3, 4, 5:
			p.SliceGroupChangeDirection = b()
			switch r.Intn(3) {
			case 0:
				p.SliceGroupChangeRateMinus1 = 0
			case 1:
				p.SliceGroupChangeRateMinus1 = uint64(r.Intn(int(units)))
			default:
				p.SliceGroupChangeRateMinus1 = uint64(r.Intn(8))
			}
		case 6:
			if opt.SliceGroupIdRuns {
				for uint64(len(p.SliceGroupId)) < units {
					id := uint64(Pick(r, 0, 0, 0, r.Intn(n+1)))
					for run := Pick(r, 1, 8, 24, 48, 1+r.Intn(200)); run > 0 && uint64(len(p.SliceGroupId)) < units; run-- {
						p.SliceGroupId = append(p.SliceGroupId, id)
					}
				}
				break
			}
			for i := uint64(0); i < units; i++ {
				p.SliceGroupId = append(p.SliceGroupId, uint64(r.Intn(n+1)))
			}
		}
	}
	p.NumRefIdxL0DefaultActiveMinus1 = uint64(Pick(r, 0, 0, 1, 2, r.Intn(32)))
	p.NumRefIdxL1DefaultActiveMinus1 = uint64(Pick(r, 0, 0, 1, 2, r.Intn(32)))
	p.WeightedPred = b()
	p.WeightedBipredIdc = uint64(r.Intn(3))
	p.PicInitQpMinus26 = int64(Range(r, -26-6*int(sps.BitDepthLumaMinus8), 25))
	p.PicInitQsMinus26 = int64(Range(r, -26, 25))
	p.ChromaQpIndexOffset = int64(Range(r, -12, 12))
	p.DeblockingFilterControlPresent = b()
	p.ConstrainedIntraPred = b()
	p.RedundantPicCntPresent = Chance(r, 1, 4)
	p.HasExt = b()
	if p.HasExt {
		p.Transform8x8Mode = b()
		p.PicScalingMatrixPresent = Chance(r, 1, 3)
		if p.PicScalingMatrixPresent {
			n := p.NumScalingLists(sps)
			p.ScalingLists = make([]*ScalingList, n)
			for i := 0; i < n; i++ {
				if Chance(r, 1, 2) {
					size := 16
					if i >= 6 {
						size = 64
					}
					p.ScalingLists[i] = GenScalingList(r, size)
				}
			}
		}
		p.SecondChromaQpIndexOffset = int64(Range(r, -12, 12))
	}
	return p
}
