// Package h264 holds independent serializers of the ISO/IEC 14496-10 sequence
// parameter set (7.3.2.1.1 + Annex E.1.1/E.1.2 VUI/HRD), picture parameter set
// (7.3.2.2) and slice header (7.3.3, 7.3.3.1, 7.3.3.2, 7.3.3.3) syntax, written
// from the syntax tables of the standard on top of ref/bitw. It never imports
// mp4ff. A serializer takes a value record and emits a complete NAL unit
// (NAL header + escaped RBSP) together with a description of what was coded:
// every syntax element (name, value, bit position, bit length), the conditional
// branches taken, derived quantities of the standard (names starting with '#')
// and, for slice headers, the header length in bits and in NAL bytes.
package h264

import (
	"fmt"

	"verifharness/ref/bitw"
)

// Elem is one emitted syntax element (or, when Name starts with '#', a derived
// quantity of the standard such as the cropped width; Len is 0 then).
type Elem struct {
	Name string `json:"n"`
	Val  int64  `json:"v"`
	Pos  int    `json:"p"` // bit position in the RBSP (NAL header excluded)
	Len  int    `json:"l"` // number of bits
}

// Coded is the result of a serializer.
type Coded struct {
	NAL        []byte   // complete NAL unit: header + escaped RBSP
	RBSP       []byte   // unescaped payload after the NAL header, with trailing bits
	HdrLen     int      // NAL header length in bytes (1 AVC, 2 HEVC)
	Elems      []Elem   // what was coded, in order
	Branches   []string // conditional syntax branches taken
	HeaderBits int      // slice headers: number of RBSP bits of the header
	HeaderSize int      // slice headers: bytes of NAL the header occupies (NAL header and emulation prevention bytes included)
}

// Get returns the value of the first element with that name.
func (c *Coded) Get(name string) (int64, bool) {
	for i := range c.Elems {
		if c.Elems[i].Name == name {
			return c.Elems[i].Val, true
		}
	}
	return 0, false
}

// Has tells whether a branch was taken.
func (c *Coded) Has(branch string) bool {
	for _, b := range c.Branches {
		if b == branch {
			return true
		}
	}
	return false
}

// Enc is a recording bit emitter.
type Enc struct {
	W        bitw.W
	Elems    []Elem
	Branches []string
	marks    []mark
}

type mark struct {
	name string
	pos  int
}

// U emits an n-bit unsigned value.
func (e *Enc) U(name string, v uint64, n int) {
	e.Elems = append(e.Elems, Elem{name, int64(v), e.W.NBits(), n})
	e.W.Put(v, n)
}

// Flag emits a 1-bit flag.
func (e *Enc) Flag(name string, b bool) {
	v := uint64(0)
	if b {
		v = 1
	}
	e.U(name, v, 1)
}

// UE emits ue(v).
func (e *Enc) UE(name string, v uint64) {
	p := e.W.NBits()
	e.W.UE(v)
	e.Elems = append(e.Elems, Elem{name, int64(v), p, e.W.NBits() - p})
}

// SE emits se(v).
func (e *Enc) SE(name string, v int64) {
	p := e.W.NBits()
	e.W.SE(v)
	e.Elems = append(e.Elems, Elem{name, v, p, e.W.NBits() - p})
}

// Derived records a derived quantity (name gets a '#' prefix).
func (e *Enc) Derived(name string, v int64) {
	e.Elems = append(e.Elems, Elem{"#" + name, v, e.W.NBits(), 0})
}

// Branch records that a conditional branch of the syntax was taken.
func (e *Enc) Branch(b string) { e.Branches = append(e.Branches, b) }

// MarkEnd remembers the current position: Finish adds the derived quantity
// "#bytes:<name>" = number of NAL bytes (header and emulation prevention bytes
// included) up to and including the byte that holds the last bit written so far.
func (e *Enc) MarkEnd(name string) { e.marks = append(e.marks, mark{name, e.W.NBits()}) }

// Finish closes the RBSP with rbsp_trailing_bits (unless already aligned by the
// caller: set trailing=false) and builds the NAL unit.
func (e *Enc) Finish(nalHdr []byte, trailing bool, headerBits int) *Coded {
	if trailing {
		e.W.TrailingBits()
	}
	rbsp := e.W.Bytes()
	full := append(append([]byte{}, nalHdr...), rbsp...)
	idx := bitw.EscapedIndex(full)
	c := &Coded{RBSP: rbsp, HdrLen: len(nalHdr), Elems: e.Elems, Branches: e.Branches, HeaderBits: headerBits}
	c.NAL = append(append([]byte{}, nalHdr...), bitw.Escape(rbsp)...)
	through := func(bits int) int {
		if bits <= 0 {
			return len(nalHdr)
		}
		return idx[len(nalHdr)+(bits-1)/8] + 1
	}
	for _, m := range e.marks {
		c.Elems = append(c.Elems, Elem{"#bytes:" + m.name, int64(through(m.pos)), m.pos, 0})
	}
	if headerBits > 0 {
		c.HeaderSize = through(headerBits)
	}
	return c
}

// Idx builds "name[i]".
func Idx(name string, i int) string { return fmt.Sprintf("%s[%d]", name, i) }

// Idx2 builds "name[i][j]".
func Idx2(name string, i, j int) string { return fmt.Sprintf("%s[%d][%d]", name, i, j) }

// Rng is the randomness source of the generators (runner.Rand satisfies it).
type Rng interface {
	Intn(n int) int
	Uint64() uint64
}

// Chance returns true with probability num/den.
func Chance(r Rng, num, den int) bool { return r.Intn(den) < num }

// Range returns a value in [lo,hi].
func Range(r Rng, lo, hi int) int {
	if hi <= lo {
		return lo
	}
	return lo + r.Intn(hi-lo+1)
}

// Pick returns one of v.
func Pick(r Rng, v ...int) int { return v[r.Intn(len(v))] }

// CeilLog2Ratio returns the smallest n with 2^n >= num/den (exact rational, num,den>0).
func CeilLog2Ratio(num, den uint64) int {
	n := 0
	for (den << uint(n)) < num {
		n++
	}
	return n
}

// CeilLog2 returns Ceil(Log2(x)) for x >= 1.
func CeilLog2(x uint64) int { return CeilLog2Ratio(x, 1) }

// SARTable is Table E-1 of 14496-10 / E.1 of 23008-2: aspect_ratio_idc 1..16.
var SARTable = [17][2]uint{{0, 0}, {1, 1}, {12, 11}, {10, 11}, {16, 11}, {40, 33}, {24, 11}, {20, 11}, {32, 11},
	{80, 33}, {18, 11}, {15, 11}, {64, 33}, {160, 99}, {4, 3}, {3, 2}, {2, 1}}

// Map returns name -> value of everything coded (later duplicates win).
func (c *Coded) Map() map[string]int64 {
	m := make(map[string]int64, len(c.Elems))
	for _, e := range c.Elems {
		m[e.Name] = e.Val
	}
	return m
}

// ParseCodecString reads back an RFC 6381 "avc1.PPCCLL" style string: sample
// entry name, profile_idc, the constraint-flag byte and level_idc.
func ParseCodecString(s string) (entry string, profile, compat, level uint8, ok bool) {
	dot := -1
	for i := 0; i < len(s); i++ {
		if s[i] == '.' {
			dot = i
			break
		}
	}
	if dot < 0 || len(s)-dot-1 != 6 {
		return "", 0, 0, 0, false
	}
	var v [3]uint8
	for i := 0; i < 3; i++ {
		var x uint8
		for j := 0; j < 2; j++ {
			ch := s[dot+1+2*i+j]
			var d uint8
			switch {
			case ch >= '0' && ch <= '9':
				d = ch - '0'
			case ch >= 'a' && ch <= 'f':
				d = ch - 'a' + 10
			case ch >= 'A' && ch <= 'F':
				d = ch - 'A' + 10
			default:
				return "", 0, 0, 0, false
			}
			x = x<<4 | d
		}
		v[i] = x
	}
	return s[:dot], v[0], v[1], v[2], true
}

// AVCC is an independent reading of an AVCDecoderConfigurationRecord
// (ISO/IEC 14496-15 5.3.3.1.2).
type AVCC struct {
	Version, Profile, Compat, Level uint8
	LengthSizeMinusOne              uint8
	SPS, PPS                        [][]byte
	HasExt                          bool // chroma_format / bit depths / SPS-ext part present
	ChromaFormat                    uint8
	BitDepthLumaMinus8              uint8
	BitDepthChromaMinus8            uint8
	NumSPSExt                       uint8
	Trailing                        int // unread bytes
}

// ParseAVCC reads the record; ok=false when it is truncated.
func ParseAVCC(b []byte) (a AVCC, ok bool) {
	if len(b) < 6 {
		return a, false
	}
	a.Version, a.Profile, a.Compat, a.Level = b[0], b[1], b[2], b[3]
	a.LengthSizeMinusOne = b[4] & 3
	n := int(b[5] & 0x1f)
	p := 6
	rd := func(count int) ([][]byte, bool) {
		var out [][]byte
		for i := 0; i < count; i++ {
			if p+2 > len(b) {
				return nil, false
			}
			l := int(b[p])<<8 | int(b[p+1])
			p += 2
			if p+l > len(b) {
				return nil, false
			}
			out = append(out, b[p:p+l])
			p += l
		}
		return out, true
	}
	if a.SPS, ok = rd(n); !ok {
		return a, false
	}
	if p >= len(b) {
		return a, false
	}
	n = int(b[p])
	p++
	if a.PPS, ok = rd(n); !ok {
		return a, false
	}
	if len(b)-p >= 4 {
		a.HasExt = true
		a.ChromaFormat = b[p] & 3
		a.BitDepthLumaMinus8 = b[p+1] & 7
		a.BitDepthChromaMinus8 = b[p+2] & 7
		a.NumSPSExt = b[p+3]
		p += 4
	}
	a.Trailing = len(b) - p
	return a, true
}
