package h264

// RPLMOp is one iteration of the ref_pic_list_modification( ) loop (7.3.3.1):
// modification_of_pic_nums_idc 0,1 (abs_diff_pic_num_minus1) or 2
// (long_term_pic_num). The terminating idc 3 is added by the serializer.
type RPLMOp struct {
	Idc uint64
	Val uint64
}

// WeightEntry is one reference index of pred_weight_table( ) (7.3.3.2).
type WeightEntry struct {
	LumaFlag     bool
	LumaWeight   int64
	LumaOffset   int64
	ChromaFlag   bool
	ChromaWeight [2]int64
	ChromaOffset [2]int64
}

// PredWeightTable is pred_weight_table( ); L0/L1 must have
// num_ref_idx_lX_active_minus1+1 entries (the serializer pads/truncates).
type PredWeightTable struct {
	LumaLog2WeightDenom   uint64
	ChromaLog2WeightDenom uint64
	L0, L1                []WeightEntry
}

// MMCOOp is one memory_management_control_operation (1..6) of
// dec_ref_pic_marking( ) (7.3.3.3) with its operands in coding order. The
// terminating operation 0 is added by the serializer.
type MMCOOp struct {
	Op   uint64
	A, B uint64
}

// Slice is the value record of slice_header( ) (7.3.3) for nal_unit_type 1, 2, 5, 19.
type Slice struct {
	NalUnitType             uint // 1, 2, 5 or 19
	NalRefIdc               uint
	FirstMbInSlice          uint64
	SliceType               uint64 // 0..9
	PPSID                   uint64
	ColourPlaneId           uint64
	FrameNum                uint64
	FieldPic, BottomField   bool
	IdrPicId                uint64
	PocLsb                  uint64
	DeltaPocBottom          int64
	DeltaPoc                [2]int64
	RedundantPicCnt         uint64
	DirectSpatialMvPred     bool
	NumRefIdxActiveOverride bool
	NumRefIdxL0ActiveMinus1 uint64
	NumRefIdxL1ActiveMinus1 uint64
	RPLM                    [2][]RPLMOp // nil: ref_pic_list_modification_flag_lX = 0
	PWT                     *PredWeightTable
	NoOutputOfPriorPics     bool
	LongTermReference       bool
	AdaptiveRefPicMarking   bool
	MMCO                    []MMCOOp
	CabacInitIdc            uint64
	SliceQpDelta            int64
	SpForSwitch             bool
	SliceQsDelta            int64
	DisableDeblockingIdc    uint64
	AlphaC0OffsetDiv2       int64
	BetaOffsetDiv2          int64
	SliceGroupChangeCycle   uint64
	Data                    []byte // what follows the header (slice_data / slice_id), arbitrary bits
}

// SliceGroupChangeCycleBits = Ceil( Log2( PicSizeInMapUnits ÷ SliceGroupChangeRate + 1 ) ) (7.4.3).
func SliceGroupChangeCycleBits(sps *SPS, pps *PPS) int {
	p := sps.PicSizeInMapUnits()
	rate := pps.SliceGroupChangeRateMinus1 + 1
	return CeilLog2Ratio(p+rate, rate)
}

// ActiveRefs returns the effective num_ref_idx_l0/l1_active_minus1 of the slice.
func (s *Slice) ActiveRefs(pps *PPS) (uint64, uint64) {
	if s.NumRefIdxActiveOverride {
		l1 := pps.NumRefIdxL1DefaultActiveMinus1
		if s.SliceType%5 == 1 {
			l1 = s.NumRefIdxL1ActiveMinus1
		}
		return s.NumRefIdxL0ActiveMinus1, l1
	}
	return pps.NumRefIdxL0DefaultActiveMinus1, pps.NumRefIdxL1DefaultActiveMinus1
}

// HasPWT tells whether pred_weight_table( ) is present.
func (s *Slice) HasPWT(pps *PPS) bool {
	t := s.SliceType % 5
	return (pps.WeightedPred && (t == 0 || t == 3)) || (pps.WeightedBipredIdc == 1 && t == 1)
}

// Encode emits the slice NAL unit: header per 7.3.3 using the given (active)
// SPS and PPS, followed by s.Data and rbsp_trailing_bits.
func (s *Slice) Encode(sps *SPS, pps *PPS) *Coded {
	e := &Enc{}
	t := s.SliceType % 5 // 0 P, 1 B, 2 I, 3 SP, 4 SI
	idr := s.NalUnitType == 5
	e.Branch(Idx("slice/nal_unit_type", int(s.NalUnitType)))
	e.Branch(Idx("slice/slice_type", int(s.SliceType)))
	e.UE("first_mb_in_slice", s.FirstMbInSlice)
	e.UE("slice_type", s.SliceType)
	e.UE("pic_parameter_set_id", s.PPSID)
	if sps.SeparatePlanes() {
		e.Branch("slice/colour_plane_id")
		e.U("colour_plane_id", s.ColourPlaneId, 2)
	}
	e.U("frame_num", s.FrameNum, int(sps.Log2MaxFrameNumMinus4+4))
	fieldPic := false
	if !sps.FrameMbsOnly {
		e.Flag("field_pic_flag", s.FieldPic)
		fieldPic = s.FieldPic
		if s.FieldPic {
			e.Branch("slice/field")
			e.Flag("bottom_field_flag", s.BottomField)
		}
	}
	if idr {
		e.UE("idr_pic_id", s.IdrPicId)
	}
	if sps.PocType == 0 {
		e.U("pic_order_cnt_lsb", s.PocLsb, int(sps.Log2MaxPocLsbMinus4+4))
		if pps.BottomFieldPicOrderInFramePresent && !fieldPic {
			e.Branch("slice/delta_pic_order_cnt_bottom")
			e.SE("delta_pic_order_cnt_bottom", s.DeltaPocBottom)
		}
	}
	if sps.PocType == 1 && !sps.DeltaPicOrderAlwaysZero {
		e.Branch("slice/delta_pic_order_cnt[0]")
		e.SE("delta_pic_order_cnt[0]", s.DeltaPoc[0])
		if pps.BottomFieldPicOrderInFramePresent && !fieldPic {
			e.Branch("slice/delta_pic_order_cnt[1]")
			e.SE("delta_pic_order_cnt[1]", s.DeltaPoc[1])
		}
	}
	if pps.RedundantPicCntPresent {
		e.UE("redundant_pic_cnt", s.RedundantPicCnt)
	}
	if t == 1 {
		e.Flag("direct_spatial_mv_pred_flag", s.DirectSpatialMvPred)
	}
	if t == 0 || t == 3 || t == 1 {
		e.Flag("num_ref_idx_active_override_flag", s.NumRefIdxActiveOverride)
		if s.NumRefIdxActiveOverride {
			e.Branch("slice/num_ref_idx-override")
			e.UE("num_ref_idx_l0_active_minus1", s.NumRefIdxL0ActiveMinus1)
			if t == 1 {
				e.UE("num_ref_idx_l1_active_minus1", s.NumRefIdxL1ActiveMinus1)
			}
		}
	}
	// ref_pic_list_modification( ) (nal_unit_type is never 20/21 here)
	rplm := func(x int) {
		name := Idx("ref_pic_list_modification_flag_l", x)
		e.Flag(name, s.RPLM[x] != nil)
		if s.RPLM[x] == nil {
			return
		}
		e.Branch(Idx("slice/rplm-l", x))
		for k, op := range s.RPLM[x] {
			e.UE(Idx2("modification_of_pic_nums_idc", x, k), op.Idc)
			if op.Idc == 0 || op.Idc == 1 {
				e.UE(Idx2("abs_diff_pic_num_minus1", x, k), op.Val)
				e.Derived("last.abs_diff_pic_num_minus1", int64(op.Val))
			} else if op.Idc == 2 {
				e.UE(Idx2("long_term_pic_num", x, k), op.Val)
				e.Derived("last.long_term_pic_num", int64(op.Val))
			}
		}
		e.UE(Idx2("modification_of_pic_nums_idc", x, len(s.RPLM[x])), 3)
		e.Derived("last.modification_of_pic_nums_idc", 3)
	}
	if t != 2 && t != 4 {
		rplm(0)
	}
	if t == 1 {
		rplm(1)
	}
	l0, l1 := s.ActiveRefs(pps)
	if s.HasPWT(pps) {
		e.Branch("slice/pred_weight_table")
		w := s.PWT
		if w == nil {
			w = &PredWeightTable{}
		}
		cat := sps.ChromaArrayType()
		e.UE("luma_log2_weight_denom", w.LumaLog2WeightDenom)
		if cat != 0 {
			e.UE("chroma_log2_weight_denom", w.ChromaLog2WeightDenom)
		}
		table := func(x int, n uint64, ents []WeightEntry) {
			for i := 0; i <= int(n); i++ {
				var we WeightEntry
				if i < len(ents) {
					we = ents[i]
				}
				e.Flag(Idx2("luma_weight_flag_l", x, i), we.LumaFlag)
				if we.LumaFlag {
					e.SE(Idx2("luma_weight_l", x, i), we.LumaWeight)
					e.SE(Idx2("luma_offset_l", x, i), we.LumaOffset)
				}
				if cat != 0 {
					e.Flag(Idx2("chroma_weight_flag_l", x, i), we.ChromaFlag)
					if we.ChromaFlag {
						for j := 0; j < 2; j++ {
							e.SE(Idx2("chroma_weight_l", x, 2*i+j), we.ChromaWeight[j])
							e.SE(Idx2("chroma_offset_l", x, 2*i+j), we.ChromaOffset[j])
						}
					}
				}
			}
		}
		table(0, l0, w.L0)
		if t == 1 {
			e.Branch("slice/pred_weight_table-l1")
			table(1, l1, w.L1)
		}
	}
	if s.NalRefIdc != 0 {
		// dec_ref_pic_marking( )
		if idr {
			e.Branch("slice/dec_ref_pic_marking-idr")
			e.Flag("no_output_of_prior_pics_flag", s.NoOutputOfPriorPics)
			e.Flag("long_term_reference_flag", s.LongTermReference)
		} else {
			e.Flag("adaptive_ref_pic_marking_mode_flag", s.AdaptiveRefPicMarking)
			if s.AdaptiveRefPicMarking {
				e.Branch("slice/mmco")
				for k, m := range s.MMCO {
					e.UE(Idx("memory_management_control_operation", k), m.Op)
					e.Branch(Idx("slice/mmco-op", int(m.Op)))
					if m.Op == 1 || m.Op == 3 {
						e.UE(Idx("difference_of_pic_nums_minus1", k), m.A)
						e.Derived("last.difference_of_pic_nums_minus1", int64(m.A))
					}
					if m.Op == 2 {
						e.UE(Idx("mmco.long_term_pic_num", k), m.A)
						e.Derived("last.long_term_pic_num", int64(m.A))
					}
					if m.Op == 3 {
						e.UE(Idx("long_term_frame_idx", k), m.B)
						e.Derived("last.long_term_frame_idx", int64(m.B))
					}
					if m.Op == 6 {
						e.UE(Idx("long_term_frame_idx", k), m.A)
						e.Derived("last.long_term_frame_idx", int64(m.A))
					}
					if m.Op == 4 {
						e.UE(Idx("max_long_term_frame_idx_plus1", k), m.A)
						e.Derived("last.max_long_term_frame_idx_plus1", int64(m.A))
					}
				}
				e.UE(Idx("memory_management_control_operation", len(s.MMCO)), 0)
			}
		}
	}
	if pps.EntropyCodingMode && t != 2 && t != 4 {
		e.UE("cabac_init_idc", s.CabacInitIdc)
	}
	e.SE("slice_qp_delta", s.SliceQpDelta)
	if t == 3 || t == 4 {
		if t == 3 {
			e.Flag("sp_for_switch_flag", s.SpForSwitch)
		}
		e.SE("slice_qs_delta", s.SliceQsDelta)
	}
	if pps.DeblockingFilterControlPresent {
		e.UE("disable_deblocking_filter_idc", s.DisableDeblockingIdc)
		if s.DisableDeblockingIdc != 1 {
			e.SE("slice_alpha_c0_offset_div2", s.AlphaC0OffsetDiv2)
			e.SE("slice_beta_offset_div2", s.BetaOffsetDiv2)
		}
	}
	if pps.NumSliceGroupsMinus1 > 0 && pps.SliceGroupMapType >= 3 && pps.SliceGroupMapType <= 5 {
		e.Branch("slice/slice_group_change_cycle")
		e.U("slice_group_change_cycle", s.SliceGroupChangeCycle, SliceGroupChangeCycleBits(sps, pps))
	}
	hdrBits := e.W.NBits()
	e.W.PutBytes(s.Data)
	return e.Finish([]byte{byte(s.NalRefIdc&3)<<5 | byte(s.NalUnitType&31)}, true, hdrBits)
}

// GenData draws bytes that follow a slice header; zero runs make emulation
// prevention bytes appear in and right after the header.
func GenData(r Rng) []byte {
	n := Pick(r, 0, 1, 2, 3, 8, r.Intn(40))
	b := make([]byte, n)
	mode := r.Intn(4)
	for i := range b {
		switch mode {
		case 0:
			b[i] = 0
		case 1:
			b[i] = byte(r.Intn(4))
		default:
			b[i] = byte(r.Intn(256))
		}
	}
	return b
}

// GenSlice draws a syntactically valid slice header record for (sps, pps).
func GenSlice(r Rng, sps *SPS, pps *PPS) *Slice {
	s := &Slice{PPSID: pps.ID}
	b := func() bool { return Chance(r, 1, 2) }
	s.NalUnitType = uint(Pick(r, 1, 1, 1, 1, 5, 5, 2, 19))
	s.NalRefIdc = uint(r.Intn(4))
	if s.NalUnitType == 5 {
		s.NalRefIdc = uint(Range(r, 1, 3))
		s.SliceType = uint64(Pick(r, 2, 7, 7, 4, 9))
	} else {
		s.SliceType = uint64(r.Intn(10))
	}
	t := s.SliceType % 5
	if !sps.FrameMbsOnly {
		s.FieldPic = b()
		s.BottomField = b()
	}
	nMbs := sps.FrameSizeInMbs()
	if s.FieldPic || sps.MbAdaptiveFrameField {
		nMbs /= 2
	}
	if nMbs == 0 {
		nMbs = 1
	}
	switch r.Intn(3) {
	case 0:
		s.FirstMbInSlice = 0
	case 1:
		s.FirstMbInSlice = uint64(r.Intn(int(nMbs)))
	default:
		s.FirstMbInSlice = nMbs - 1
	}
	s.ColourPlaneId = uint64(r.Intn(3))
	bitsVal := func(n int) uint64 {
		switch r.Intn(4) {
		case 0:
			return 0
		case 1:
			return 1<<uint(n) - 1
		}
		return r.Uint64() & (1<<uint(n) - 1)
	}
	s.FrameNum = bitsVal(int(sps.Log2MaxFrameNumMinus4 + 4))
	s.IdrPicId = uint64(Pick(r, 0, 1, 65535, r.Intn(65536)))
	s.PocLsb = bitsVal(int(sps.Log2MaxPocLsbMinus4 + 4))
	s.DeltaPocBottom = genOffset(r)
	s.DeltaPoc = [2]int64{genOffset(r), genOffset(r)}
	s.RedundantPicCnt = uint64(r.Intn(128))
	s.DirectSpatialMvPred = b()
	s.NumRefIdxActiveOverride = b()
	maxRef := 15
	if s.FieldPic {
		maxRef = 31
	}
	s.NumRefIdxL0ActiveMinus1 = uint64(Pick(r, 0, 1, 2, r.Intn(maxRef+1)))
	s.NumRefIdxL1ActiveMinus1 = uint64(Pick(r, 0, 1, 2, r.Intn(maxRef+1)))
	for x := 0; x < 2; x++ {
		if Chance(r, 1, 3) {
			s.RPLM[x] = []RPLMOp{}
			for k := r.Intn(5); k > 0; k-- {
				op := RPLMOp{Idc: uint64(r.Intn(3))}
				if op.Idc == 2 {
					op.Val = uint64(r.Intn(33))
				} else {
					op.Val = uint64(Pick(r, 0, 1, r.Intn(1<<17)))
				}
				s.RPLM[x] = append(s.RPLM[x], op)
			}
		}
	}
	if s.HasPWT(pps) {
		w := &PredWeightTable{LumaLog2WeightDenom: uint64(r.Intn(8)), ChromaLog2WeightDenom: uint64(r.Intn(8))}
		l0, l1 := s.ActiveRefs(pps)
		ent := func(n uint64) []WeightEntry {
			out := make([]WeightEntry, n+1)
			for i := range out {
				out[i] = WeightEntry{LumaFlag: b(), ChromaFlag: b(),
					LumaWeight: int64(Range(r, -128, 127)), LumaOffset: int64(Range(r, -128, 127))}
				for j := 0; j < 2; j++ {
					out[i].ChromaWeight[j] = int64(Range(r, -128, 127))
					out[i].ChromaOffset[j] = int64(Range(r, -128, 127))
				}
			}
			return out
		}
		w.L0 = ent(l0)
		if t == 1 {
			w.L1 = ent(l1)
		}
		s.PWT = w
	}
	s.NoOutputOfPriorPics, s.LongTermReference = b(), b()
	s.AdaptiveRefPicMarking = Chance(r, 1, 3)
	if s.AdaptiveRefPicMarking {
		for k := r.Intn(6); k > 0; k-- {
			m := MMCOOp{Op: uint64(Range(r, 1, 6))}
			m.A = uint64(Pick(r, 0, 1, r.Intn(40), r.Intn(1<<16)))
			m.B = uint64(r.Intn(17))
			if m.Op == 4 || m.Op == 6 {
				m.A = uint64(r.Intn(17))
			}
			s.MMCO = append(s.MMCO, m)
		}
	}
	s.CabacInitIdc = uint64(r.Intn(3))
	s.SliceQpDelta = int64(Range(r, -51, 51))
	s.SpForSwitch = b()
	s.SliceQsDelta = int64(Range(r, -51, 51))
	s.DisableDeblockingIdc = uint64(r.Intn(3))
	s.AlphaC0OffsetDiv2 = int64(Range(r, -6, 6))
	s.BetaOffsetDiv2 = int64(Range(r, -6, 6))
	if pps.NumSliceGroupsMinus1 > 0 && pps.SliceGroupMapType >= 3 && pps.SliceGroupMapType <= 5 {
		s.SliceGroupChangeCycle = bitsVal(SliceGroupChangeCycleBits(sps, pps))
	}
	s.Data = GenData(r)
	return s
}
