// Package boxwalk is an independent ISO BMFF (ISO/IEC 14496-12 §4.2) box
// walker: it tiles a byte string into a tree of boxes using only the size and
// type fields and a table of container types with their fixed prefix lengths.
// It never imports mp4ff.
package boxwalk

import (
	"encoding/binary"
	"fmt"
)

// Node is one box.
type Node struct {
	Type      string
	Start     int // offset of the size field in the walked buffer
	Size      int // total box size including header
	HdrLen    int // 8, or 16 for a largesize header
	Large     bool
	Container bool
	BodyOff   int // offset (relative to Start) of the first child for containers
	Children  []*Node
	Parent    *Node
}

// End returns the offset just after the box.
func (n *Node) End() int { return n.Start + n.Size }

// Bytes returns the whole box.
func (n *Node) Bytes(b []byte) []byte { return b[n.Start:n.End()] }

// Payload returns the bytes after the header.
func (n *Node) Payload(b []byte) []byte { return b[n.Start+n.HdrLen : n.End()] }

// Path returns e.g. "moov/trak/mdia".
func (n *Node) Path() string {
	if n.Parent == nil {
		return n.Type
	}
	return n.Parent.Path() + "/" + n.Type
}

var plain = map[string]bool{
	"moov": true, "trak": true, "mdia": true, "minf": true, "stbl": true, "dinf": true, "edts": true,
	"mvex": true, "moof": true, "traf": true, "mfra": true, "udta": true, "ilst": true, "sinf": true,
	"schi": true, "tref": true, "ludt": true, "vttc": true, "vtte": true,
	"\xa9ART": true, "\xa9nam": true, "\xa9too": true, "\xa9cpy": true, "desc": true,
}

var visual = map[string]bool{"avc1": true, "avc3": true, "hvc1": true, "hev1": true, "encv": true, "av01": true, "vp08": true, "vp09": true}
var audio = map[string]bool{"mp4a": true, "enca": true, "ac-3": true, "ec-3": true}

// prefix returns the number of bytes between the end of the box header and
// the first child for container types; ok=false for leaves.
func prefix(typ string, payload []byte) (n int, ok bool) {
	switch {
	case plain[typ]:
		return 0, true
	case typ == "meta":
		if len(payload) >= 8 && string(payload[4:8]) == "hdlr" {
			return 0, true // QuickTime form: no version/flags
		}
		return 4, true
	case typ == "stsd", typ == "dref":
		return 8, true
	case typ == "trep":
		return 8, true
	case visual[typ]:
		return 78, true
	case audio[typ]:
		return 28, true
	case typ == "wvtt", typ == "evte":
		return 8, true
	case typ == "stpp":
		// 8 bytes sample entry + up to three zero-terminated strings
		p := 8
		for s := 0; s < 3 && p < len(payload); s++ {
			for p < len(payload) && payload[p] != 0 {
				p++
			}
			p++ // terminator
		}
		if p > len(payload) {
			p = len(payload)
		}
		return p, true
	}
	return 0, false
}

// IsContainerType tells whether the walker descends into boxes of this type.
func IsContainerType(typ string) bool {
	_, ok := prefix(typ, nil)
	return ok
}

// Walk tiles b into top-level boxes (and recursively their children). It
// fails when sizes do not tile exactly.
func Walk(b []byte) ([]*Node, error) {
	return walk(b, 0, len(b), nil, 0)
}

func walk(b []byte, start, end int, parent *Node, depth int) ([]*Node, error) {
	if depth > 64 {
		return nil, fmt.Errorf("nesting deeper than 64 at %d", start)
	}
	var nodes []*Node
	pos := start
	for pos < end {
		if end-pos < 8 {
			return nil, fmt.Errorf("%d stray bytes at %d (parent %s)", end-pos, pos, pathOf(parent))
		}
		size := int(binary.BigEndian.Uint32(b[pos:]))
		typ := string(b[pos+4 : pos+8])
		n := &Node{Type: typ, Start: pos, HdrLen: 8, Parent: parent}
		switch size {
		case 1:
			if end-pos < 16 {
				return nil, fmt.Errorf("truncated largesize header at %d", pos)
			}
			ls := binary.BigEndian.Uint64(b[pos+8:])
			if ls > uint64(end-pos) {
				return nil, fmt.Errorf("largesize %d of %s at %d exceeds the %d bytes left", ls, typ, pos, end-pos)
			}
			size = int(ls)
			n.HdrLen = 16
			n.Large = true
		case 0:
			size = end - pos // box extends to the end
		}
		if size < n.HdrLen || size > end-pos {
			return nil, fmt.Errorf("size %d of %q at %d does not fit (%d bytes left, parent %s)", size, typ, pos, end-pos, pathOf(parent))
		}
		n.Size = size
		if pre, ok := prefix(typ, b[pos+n.HdrLen:pos+size]); ok {
			n.Container = true
			n.BodyOff = n.HdrLen + pre
			if n.BodyOff > size {
				return nil, fmt.Errorf("%s at %d shorter (%d) than its fixed prefix %d", typ, pos, size, n.BodyOff)
			}
			ch, err := walk(b, pos+n.BodyOff, pos+size, n, depth+1)
			if err != nil {
				return nil, err
			}
			n.Children = ch
		}
		nodes = append(nodes, n)
		pos += size
	}
	return nodes, nil
}

func pathOf(n *Node) string {
	if n == nil {
		return "<top>"
	}
	return n.Path()
}

// All returns every node of the forest in document order.
func All(nodes []*Node) []*Node {
	var out []*Node
	var rec func(ns []*Node)
	rec = func(ns []*Node) {
		for _, n := range ns {
			out = append(out, n)
			rec(n.Children)
		}
	}
	rec(nodes)
	return out
}

// Find returns all nodes of the given type anywhere in the forest.
func Find(nodes []*Node, typ string) []*Node {
	var out []*Node
	for _, n := range All(nodes) {
		if n.Type == typ {
			out = append(out, n)
		}
	}
	return out
}

// Child returns the first direct child of the given type, or nil.
func (n *Node) Child(typ string) *Node {
	for _, c := range n.Children {
		if c.Type == typ {
			return c
		}
	}
	return nil
}

// Descend follows a path of child types.
func (n *Node) Descend(path ...string) *Node {
	cur := n
	for _, p := range path {
		if cur == nil {
			return nil
		}
		cur = cur.Child(p)
	}
	return cur
}

// InnermostAt returns the innermost box containing byte offset pos.
func InnermostAt(nodes []*Node, pos int) *Node {
	for _, n := range nodes {
		if pos >= n.Start && pos < n.End() {
			if in := InnermostAt(n.Children, pos); in != nil {
				return in
			}
			return n
		}
	}
	return nil
}

// FullBox returns version and flags of a full box (no check that the type is
// one).
func (n *Node) FullBox(b []byte) (version byte, flags uint32) {
	p := n.Payload(b)
	if len(p) < 4 {
		return 0, 0
	}
	return p[0], binary.BigEndian.Uint32(p) & 0xffffff
}
