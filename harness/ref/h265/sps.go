package h265

// ScalingListEntry is one (sizeId, matrixId) entry of scaling_list_data( ) (7.3.4).
type ScalingListEntry struct {
	PredMode          bool
	PredMatrixIdDelta uint64  // when !PredMode
	DcCoefMinus8      int64   // sizeId > 1
	DeltaCoef         []int64 // Min(64, 1 << (4 + (sizeId << 1))) values
}

// ScalingListData is scaling_list_data( ): [sizeId][k] with k = 0..5 (0..1 for sizeId 3).
type ScalingListData struct {
	E [4][]ScalingListEntry
}

func emitScalingListData(e *Enc, p string, d *ScalingListData) {
	for sizeID := 0; sizeID < 4; sizeID++ {
		step := 1
		if sizeID == 3 {
			step = 3
		}
		k := 0
		for matrixID := 0; matrixID < 6; matrixID += step {
			x := d.E[sizeID][k]
			k++
			n := p + "." + idx2("scaling_list_pred_mode_flag", sizeID, matrixID)
			e.Flag(n, x.PredMode)
			if !x.PredMode {
				e.UE(p+"."+idx2("scaling_list_pred_matrix_id_delta", sizeID, matrixID), x.PredMatrixIdDelta)
			} else {
				coefNum := 1 << uint(4+(sizeID<<1))
				if coefNum > 64 {
					coefNum = 64
				}
				if sizeID > 1 {
					e.SE(p+"."+idx2("scaling_list_dc_coef_minus8", sizeID, matrixID), x.DcCoefMinus8)
				}
				for i := 0; i < coefNum; i++ {
					e.SE(p+"."+idx2("scaling_list_delta_coef", sizeID*6+matrixID, i), x.DeltaCoef[i])
				}
			}
		}
	}
}

func genScalingListData(r Rng) *ScalingListData {
	d := &ScalingListData{}
	for sizeID := 0; sizeID < 4; sizeID++ {
		step := 1
		if sizeID == 3 {
			step = 3
		}
		for matrixID := 0; matrixID < 6; matrixID += step {
			x := ScalingListEntry{PredMode: chance(r, 1, 2)}
			x.PredMatrixIdDelta = uint64(r.Intn(matrixID/step + 1))
			x.DcCoefMinus8 = int64(rng(r, -7, 247))
			coefNum := 1 << uint(4+(sizeID<<1))
			if coefNum > 64 {
				coefNum = 64
			}
			for i := 0; i < coefNum; i++ {
				x.DeltaCoef = append(x.DeltaCoef, int64(pick(r, 0, 1, -1, rng(r, -128, 127))))
			}
			d.E[sizeID] = append(d.E[sizeID], x)
		}
	}
	return d
}

// SubLayerOrdering is one entry of the sps_max_dec_pic_buffering loop.
type SubLayerOrdering struct {
	MaxDecPicBufferingMinus1 uint64
	MaxNumReorderPics        uint64
	MaxLatencyIncreasePlus1  uint64
}

// SPSRangeExt is sps_range_extension( ) (7.3.2.2.2).
type SPSRangeExt struct {
	TransformSkipRotationEnabled, TransformSkipContextEnabled, ImplicitRdpcmEnabled, ExplicitRdpcmEnabled bool
	ExtendedPrecisionProcessing, IntraSmoothingDisabled, HighPrecisionOffsetsEnabled                      bool
	PersistentRiceAdaptationEnabled, CabacBypassAlignmentEnabled                                          bool
}

// SPSMultilayerExt is sps_multilayer_extension( ) (F.7.3.2.2.4).
type SPSMultilayerExt struct{ InterViewMvVertConstraint bool }

// SPS3DExt is sps_3d_extension( ) (I.7.3.2.2.5), d = 0 and d = 1.
type SPS3DExt struct {
	IvDiMcEnabled, IvMvScalEnabled                                                                           [2]bool
	Log2IvmcSubPbSizeMinus3                                                                                  uint64
	IvResPredEnabled, DepthRefEnabled, VspMcEnabled, DbbpEnabled                                             bool
	TexMcEnabled                                                                                             bool
	Log2TexmcSubPbSizeMinus3                                                                                 uint64
	IntraContourEnabled, IntraDcOnlyWedgeEnabled, CqtCuPartPredEnabled, InterDcOnlyEnabled, SkipIntraEnabled bool
}

// SPSSccExt is sps_scc_extension( ) (7.3.2.2.3).
type SPSSccExt struct {
	CurrPicRefEnabled                   bool
	PaletteModeEnabled                  bool
	PaletteMaxSize                      uint64
	DeltaPaletteMaxPredictorSize        uint64
	PalettePredictorInitializersPresent bool
	PaletteInit                         [][]uint64 // [comp][i], numComps x (num_minus1+1)
	MotionVectorResolutionControlIdc    uint64
	IntraBoundaryFilteringDisabled      bool
}

// SPS is the value record of seq_parameter_set_rbsp( ) (7.3.2.2.1), nuh_layer_id 0.
type SPS struct {
	VPSID                                uint8
	MaxSubLayersMinus1                   uint8
	TemporalIdNesting                    bool
	PTL                                  PTL
	ID                                   uint64
	ChromaFormatIdc                      uint64
	SeparateColourPlane                  bool
	Width, Height                        uint64 // pic_width/height_in_luma_samples
	ConformanceWindow                    bool
	ConfWin                              [4]uint64 // left, right, top, bottom
	BitDepthLumaMinus8                   uint64
	BitDepthChromaMinus8                 uint64
	Log2MaxPocLsbMinus4                  uint64
	SubLayerOrderingInfoPresent          bool
	Ordering                             []SubLayerOrdering // MaxSubLayersMinus1+1 entries
	Log2MinLumaCodingBlockSizeMinus3     uint64
	Log2DiffMaxMinLumaCodingBlockSize    uint64
	Log2MinLumaTransformBlockSizeMinus2  uint64
	Log2DiffMaxMinLumaTransformBlockSize uint64
	MaxTransformHierarchyDepthInter      uint64
	MaxTransformHierarchyDepthIntra      uint64
	ScalingListEnabled                   bool
	ScalingListData                      *ScalingListData // nil: sps_scaling_list_data_present_flag 0
	Amp, Sao, Pcm                        bool
	PcmBitDepthLumaMinus1                uint8
	PcmBitDepthChromaMinus1              uint8
	Log2MinPcmLumaCodingBlockSizeMinus3  uint64
	Log2DiffMaxMinPcmLumaCodingBlockSize uint64
	PcmLoopFilterDisabled                bool
	STRPS                                []*STRPS
	LongTermRefPicsPresent               bool
	LtRefPicPocLsbSps                    []uint64
	UsedByCurrPicLtSps                   []bool
	TemporalMvp, StrongIntraSmoothing    bool
	VUI                                  *VUI
	ExtensionPresent                     bool
	Range                                *SPSRangeExt
	Multilayer                           *SPSMultilayerExt
	D3                                   *SPS3DExt
	Scc                                  *SPSSccExt
	Extension4bits                       uint8
	ExtensionData                        []bool // sps_extension_data_flag, only when Extension4bits != 0
}

// SeparatePlanes: separate_colour_plane_flag coded as 1.
func (s *SPS) SeparatePlanes() bool { return s.ChromaFormatIdc == 3 && s.SeparateColourPlane }

// ChromaArrayType (7.4.3.2.1).
func (s *SPS) ChromaArrayType() uint64 {
	if s.SeparatePlanes() {
		return 0
	}
	return s.ChromaFormatIdc
}

// SubWH returns SubWidthC, SubHeightC (Table 6-1).
func (s *SPS) SubWH() (uint64, uint64) {
	switch s.ChromaFormatIdc {
	case 1:
		return 2, 2
	case 2:
		return 2, 1
	}
	return 1, 1
}

// Dimensions applies the conformance cropping window (7.4.3.2.1): the output
// region spans SubWidthC*left .. width-(SubWidthC*right+1) horizontally etc.
func (s *SPS) Dimensions() (uint64, uint64) {
	w, h := s.Width, s.Height
	if s.ConformanceWindow {
		sw, sh := s.SubWH()
		w -= sw * (s.ConfWin[0] + s.ConfWin[1])
		h -= sh * (s.ConfWin[2] + s.ConfWin[3])
	}
	return w, h
}

// PicSizeInCtbsY (7-10..7-19).
func (s *SPS) PicSizeInCtbsY() uint64 {
	ctb := uint64(1) << (s.Log2MinLumaCodingBlockSizeMinus3 + 3 + s.Log2DiffMaxMinLumaCodingBlockSize)
	return ((s.Width + ctb - 1) / ctb) * ((s.Height + ctb - 1) / ctb)
}

// DerivedRPS returns the derived variables of all SPS short-term sets.
func (s *SPS) DerivedRPS() []RPS {
	var out []RPS
	for i, st := range s.STRPS {
		out = append(out, st.Derive(i, false, out))
	}
	return out
}

// Encode emits the SPS NAL unit (nal_unit_type 33).
func (s *SPS) Encode(temporalIDPlus1 uint) *Coded {
	e := &Enc{}
	e.U("sps_video_parameter_set_id", uint64(s.VPSID), 4)
	e.U("sps_max_sub_layers_minus1", uint64(s.MaxSubLayersMinus1), 3)
	e.Branch(idx("sps/max_sub_layers_minus1", int(s.MaxSubLayersMinus1)))
	e.Flag("sps_temporal_id_nesting_flag", s.TemporalIdNesting)
	emitPTL(e, &s.PTL, int(s.MaxSubLayersMinus1))
	e.UE("sps_seq_parameter_set_id", s.ID)
	e.UE("chroma_format_idc", s.ChromaFormatIdc)
	e.Branch(idx("sps/chroma_format_idc", int(s.ChromaFormatIdc)))
	if s.ChromaFormatIdc == 3 {
		e.Flag("separate_colour_plane_flag", s.SeparateColourPlane)
		if s.SeparateColourPlane {
			e.Branch("sps/separate-colour-planes")
		}
	}
	e.UE("pic_width_in_luma_samples", s.Width)
	e.UE("pic_height_in_luma_samples", s.Height)
	e.Flag("conformance_window_flag", s.ConformanceWindow)
	if s.ConformanceWindow {
		e.Branch("sps/conformance-window")
		e.UE("conf_win_left_offset", s.ConfWin[0])
		e.UE("conf_win_right_offset", s.ConfWin[1])
		e.UE("conf_win_top_offset", s.ConfWin[2])
		e.UE("conf_win_bottom_offset", s.ConfWin[3])
	}
	w, h := s.Dimensions()
	e.Derived("Width", int64(w))
	e.Derived("Height", int64(h))
	e.UE("bit_depth_luma_minus8", s.BitDepthLumaMinus8)
	e.UE("bit_depth_chroma_minus8", s.BitDepthChromaMinus8)
	e.UE("log2_max_pic_order_cnt_lsb_minus4", s.Log2MaxPocLsbMinus4)
	e.Flag("sps_sub_layer_ordering_info_present_flag", s.SubLayerOrderingInfoPresent)
	start := int(s.MaxSubLayersMinus1)
	if s.SubLayerOrderingInfoPresent {
		start = 0
		e.Branch("sps/sub-layer-ordering-info-all")
	}
	k := 0
	for i := start; i <= int(s.MaxSubLayersMinus1); i++ {
		// k: position in the list the parser builds (it appends in coding order)
		e.UE(idx("sps_max_dec_pic_buffering_minus1", k), s.Ordering[i].MaxDecPicBufferingMinus1)
		e.UE(idx("sps_max_num_reorder_pics", k), s.Ordering[i].MaxNumReorderPics)
		e.UE(idx("sps_max_latency_increase_plus1", k), s.Ordering[i].MaxLatencyIncreasePlus1)
		k++
	}
	e.Derived("len(sub_layer_ordering_info)", int64(k))
	e.UE("log2_min_luma_coding_block_size_minus3", s.Log2MinLumaCodingBlockSizeMinus3)
	e.UE("log2_diff_max_min_luma_coding_block_size", s.Log2DiffMaxMinLumaCodingBlockSize)
	e.UE("log2_min_luma_transform_block_size_minus2", s.Log2MinLumaTransformBlockSizeMinus2)
	e.UE("log2_diff_max_min_luma_transform_block_size", s.Log2DiffMaxMinLumaTransformBlockSize)
	e.UE("max_transform_hierarchy_depth_inter", s.MaxTransformHierarchyDepthInter)
	e.UE("max_transform_hierarchy_depth_intra", s.MaxTransformHierarchyDepthIntra)
	e.Flag("scaling_list_enabled_flag", s.ScalingListEnabled)
	if s.ScalingListEnabled {
		e.Flag("sps_scaling_list_data_present_flag", s.ScalingListData != nil)
		if s.ScalingListData != nil {
			e.Branch("sps/scaling-list-data")
			emitScalingListData(e, "sps", s.ScalingListData)
		}
	}
	e.Flag("amp_enabled_flag", s.Amp)
	e.Flag("sample_adaptive_offset_enabled_flag", s.Sao)
	e.Flag("pcm_enabled_flag", s.Pcm)
	if s.Pcm {
		e.Branch("sps/pcm")
		e.U("pcm_sample_bit_depth_luma_minus1", uint64(s.PcmBitDepthLumaMinus1), 4)
		e.U("pcm_sample_bit_depth_chroma_minus1", uint64(s.PcmBitDepthChromaMinus1), 4)
		e.UE("log2_min_pcm_luma_coding_block_size_minus3", s.Log2MinPcmLumaCodingBlockSizeMinus3)
		e.UE("log2_diff_max_min_pcm_luma_coding_block_size", s.Log2DiffMaxMinPcmLumaCodingBlockSize)
		e.Flag("pcm_loop_filter_disabled_flag", s.PcmLoopFilterDisabled)
	}
	e.UE("num_short_term_ref_pic_sets", uint64(len(s.STRPS)))
	var derived []RPS
	for i, st := range s.STRPS {
		d := emitSTRPS(e, idx("st", i), st, i, false, derived)
		derived = append(derived, d)
	}
	e.Flag("long_term_ref_pics_present_flag", s.LongTermRefPicsPresent)
	if s.LongTermRefPicsPresent {
		e.Branch("sps/long-term-ref-pics")
		e.UE("num_long_term_ref_pics_sps", uint64(len(s.LtRefPicPocLsbSps)))
		for i, v := range s.LtRefPicPocLsbSps {
			e.U(idx("lt_ref_pic_poc_lsb_sps", i), v, int(s.Log2MaxPocLsbMinus4+4))
			e.Flag(idx("used_by_curr_pic_lt_sps_flag", i), s.UsedByCurrPicLtSps[i])
		}
	}
	e.Flag("sps_temporal_mvp_enabled_flag", s.TemporalMvp)
	e.Flag("strong_intra_smoothing_enabled_flag", s.StrongIntraSmoothing)
	e.Flag("vui_parameters_present_flag", s.VUI != nil)
	if s.VUI != nil {
		e.Branch("sps/vui")
		emitVUI(e, s.VUI, int(s.MaxSubLayersMinus1))
	}
	e.Flag("sps_extension_present_flag", s.ExtensionPresent)
	if s.ExtensionPresent {
		e.Branch("sps/extension")
		e.Flag("sps_range_extension_flag", s.Range != nil)
		e.Flag("sps_multilayer_extension_flag", s.Multilayer != nil)
		e.Flag("sps_3d_extension_flag", s.D3 != nil)
		e.Flag("sps_scc_extension_flag", s.Scc != nil)
		e.U("sps_extension_4bits", uint64(s.Extension4bits), 4)
		if x := s.Range; x != nil {
			e.Branch("sps/range-extension")
			e.Flag("transform_skip_rotation_enabled_flag", x.TransformSkipRotationEnabled)
			e.Flag("transform_skip_context_enabled_flag", x.TransformSkipContextEnabled)
			e.Flag("implicit_rdpcm_enabled_flag", x.ImplicitRdpcmEnabled)
			e.Flag("explicit_rdpcm_enabled_flag", x.ExplicitRdpcmEnabled)
			e.Flag("extended_precision_processing_flag", x.ExtendedPrecisionProcessing)
			e.Flag("intra_smoothing_disabled_flag", x.IntraSmoothingDisabled)
			e.Flag("high_precision_offsets_enabled_flag", x.HighPrecisionOffsetsEnabled)
			e.Flag("persistent_rice_adaptation_enabled_flag", x.PersistentRiceAdaptationEnabled)
			e.Flag("cabac_bypass_alignment_enabled_flag", x.CabacBypassAlignmentEnabled)
		}
		if x := s.Multilayer; x != nil {
			e.Branch("sps/multilayer-extension")
			e.Flag("inter_view_mv_vert_constraint_flag", x.InterViewMvVertConstraint)
		}
		if x := s.D3; x != nil {
			e.Branch("sps/3d-extension")
			for d := 0; d <= 1; d++ {
				e.Flag(idx("iv_di_mc_enabled_flag", d), x.IvDiMcEnabled[d])
				e.Flag(idx("iv_mv_scal_enabled_flag", d), x.IvMvScalEnabled[d])
				if d == 0 {
					e.UE("log2_ivmc_sub_pb_size_minus3", x.Log2IvmcSubPbSizeMinus3)
					e.Flag("iv_res_pred_enabled_flag", x.IvResPredEnabled)
					e.Flag("depth_ref_enabled_flag", x.DepthRefEnabled)
					e.Flag("vsp_mc_enabled_flag", x.VspMcEnabled)
					e.Flag("dbbp_enabled_flag", x.DbbpEnabled)
				} else {
					e.Flag("tex_mc_enabled_flag", x.TexMcEnabled)
					e.UE("log2_texmc_sub_pb_size_minus3", x.Log2TexmcSubPbSizeMinus3)
					e.Flag("intra_contour_enabled_flag", x.IntraContourEnabled)
					e.Flag("intra_dc_only_wedge_enabled_flag", x.IntraDcOnlyWedgeEnabled)
					e.Flag("cqt_cu_part_pred_enabled_flag", x.CqtCuPartPredEnabled)
					e.Flag("inter_dc_only_enabled_flag", x.InterDcOnlyEnabled)
					e.Flag("skip_intra_enabled_flag", x.SkipIntraEnabled)
				}
			}
		}
		if x := s.Scc; x != nil {
			e.Branch("sps/scc-extension")
			e.Flag("sps_curr_pic_ref_enabled_flag", x.CurrPicRefEnabled)
			e.Flag("palette_mode_enabled_flag", x.PaletteModeEnabled)
			if x.PaletteModeEnabled {
				e.UE("palette_max_size", x.PaletteMaxSize)
				e.UE("delta_palette_max_predictor_size", x.DeltaPaletteMaxPredictorSize)
				e.Flag("sps_palette_predictor_initializers_present_flag", x.PalettePredictorInitializersPresent)
				if x.PalettePredictorInitializersPresent {
					e.Branch("sps/scc-palette-initializers")
					e.UE("sps_num_palette_predictor_initializers_minus1", uint64(len(x.PaletteInit[0])-1))
					for comp := range x.PaletteInit {
						n := int(s.BitDepthLumaMinus8 + 8)
						if comp > 0 {
							n = int(s.BitDepthChromaMinus8 + 8)
						}
						for i, v := range x.PaletteInit[comp] {
							e.U(idx2("sps_palette_predictor_initializer", comp, i), v, n)
						}
					}
					e.Derived("len(sps_palette_predictor_initializer)", int64(len(x.PaletteInit)))
				}
			}
			e.U("motion_vector_resolution_control_idc", x.MotionVectorResolutionControlIdc, 2)
			e.Flag("intra_boundary_filtering_disabled_flag", x.IntraBoundaryFilteringDisabled)
		}
		if s.Extension4bits != 0 {
			e.Branch("sps/extension-data-flags")
			for i, b := range s.ExtensionData {
				e.Flag(idx("sps_extension_data_flag", i), b)
			}
			e.Derived("len(sps_extension_data_flag)", int64(len(s.ExtensionData)))
		}
	}
	return e.Finish(NalHeader(33, temporalIDPlus1), true, 0)
}

// SPSOpt steers GenSPS.
type SPSOpt struct {
	NoAspectIdc0 bool
	NoBigLatency bool // keep sps_max_latency_increase_plus1 <= 255
	FewRPS       bool // at most 4 short-term sets
}

// GenSPS draws a syntactically valid SPS record.
func GenSPS(r Rng, id uint64, opt SPSOpt) *SPS {
	b := func() bool { return chance(r, 1, 2) }
	s := &SPS{ID: id, VPSID: uint8(r.Intn(16))}
	s.MaxSubLayersMinus1 = uint8(pick(r, 0, 0, 0, 1, 2, r.Intn(7)))
	s.TemporalIdNesting = b() || s.MaxSubLayersMinus1 == 0
	s.PTL = genPTL(r, int(s.MaxSubLayersMinus1))
	s.ChromaFormatIdc = uint64(pick(r, 0, 1, 1, 1, 2, 3, 3))
	s.SeparateColourPlane = b()
	s.Log2MinLumaCodingBlockSizeMinus3 = uint64(r.Intn(4))
	ctbLog2 := rng(r, 4, 6)
	if int(s.Log2MinLumaCodingBlockSizeMinus3)+3 > ctbLog2 {
		ctbLog2 = int(s.Log2MinLumaCodingBlockSizeMinus3) + 3
	}
	s.Log2DiffMaxMinLumaCodingBlockSize = uint64(ctbLog2) - s.Log2MinLumaCodingBlockSizeMinus3 - 3
	minCb := uint64(1) << (s.Log2MinLumaCodingBlockSizeMinus3 + 3)
	dim := func() uint64 {
		n := uint64(pick(r, 1, 2, 8, 22, 45, 80, 135, 240, 270, 480, 1+r.Intn(300), 1+r.Intn(1024)))
		return n * minCb
	}
	s.Width, s.Height = dim(), dim()
	s.ConformanceWindow = b()
	if s.ConformanceWindow {
		sw, sh := s.SubWH()
		split := func(units uint64) (uint64, uint64) {
			var tot uint64
			switch r.Intn(4) {
			case 0:
				tot = units - 1
			case 1:
				tot = uint64(r.Intn(int(units)))
			default:
				m := units
				if m > 16 {
					m = 16
				}
				tot = uint64(r.Intn(int(m)))
			}
			a := uint64(r.Intn(int(tot) + 1))
			if chance(r, 1, 3) {
				a = 0
			}
			return a, tot - a
		}
		s.ConfWin[0], s.ConfWin[1] = split(s.Width / sw)
		s.ConfWin[2], s.ConfWin[3] = split(s.Height / sh)
	}
	s.BitDepthLumaMinus8 = uint64(pick(r, 0, 0, 2, 4, r.Intn(9)))
	s.BitDepthChromaMinus8 = uint64(pick(r, 0, 0, 2, 4, r.Intn(9)))
	s.Log2MaxPocLsbMinus4 = uint64(pick(r, 0, 4, 12, r.Intn(13)))
	s.SubLayerOrderingInfoPresent = b()
	maxDpb := 0
	for i := 0; i <= int(s.MaxSubLayersMinus1); i++ {
		o := SubLayerOrdering{MaxDecPicBufferingMinus1: uint64(r.Intn(16))}
		o.MaxNumReorderPics = uint64(r.Intn(int(o.MaxDecPicBufferingMinus1) + 1))
		switch r.Intn(5) {
		case 0:
			o.MaxLatencyIncreasePlus1 = 0
		case 1:
			o.MaxLatencyIncreasePlus1 = uint64(r.Intn(256))
		case 2:
			o.MaxLatencyIncreasePlus1 = 255
		case 3:
			if !opt.NoBigLatency {
				o.MaxLatencyIncreasePlus1 = uint64(pick(r, 256, 257, 1000, 65536, 1<<32-2))
			}
		default:
			o.MaxLatencyIncreasePlus1 = uint64(r.Intn(8))
		}
		if int(o.MaxDecPicBufferingMinus1) > maxDpb {
			maxDpb = int(o.MaxDecPicBufferingMinus1)
		}
		s.Ordering = append(s.Ordering, o)
	}
	s.Log2MinLumaTransformBlockSizeMinus2 = uint64(r.Intn(int(s.Log2MinLumaCodingBlockSizeMinus3) + 1))
	s.Log2DiffMaxMinLumaTransformBlockSize = uint64(r.Intn(4))
	s.MaxTransformHierarchyDepthInter = uint64(r.Intn(5))
	s.MaxTransformHierarchyDepthIntra = uint64(r.Intn(5))
	s.ScalingListEnabled = chance(r, 1, 3)
	if s.ScalingListEnabled && b() {
		s.ScalingListData = genScalingListData(r)
	}
	s.Amp, s.Sao, s.Pcm = b(), b(), chance(r, 1, 4)
	s.PcmBitDepthLumaMinus1, s.PcmBitDepthChromaMinus1 = uint8(r.Intn(16)), uint8(r.Intn(16))
	s.Log2MinPcmLumaCodingBlockSizeMinus3 = uint64(r.Intn(3))
	s.Log2DiffMaxMinPcmLumaCodingBlockSize = uint64(r.Intn(3))
	s.PcmLoopFilterDisabled = b()
	nst := pick(r, 0, 1, 1, 2, 3, r.Intn(9), r.Intn(65))
	if opt.FewRPS && nst > 4 {
		nst = r.Intn(5)
	}
	var derived []RPS
	maxPics := maxDpb
	if maxPics < 1 {
		maxPics = 1
	}
	for i := 0; i < nst; i++ {
		st := GenSTRPS(r, i, false, derived, maxPics)
		s.STRPS = append(s.STRPS, st)
		derived = append(derived, st.Derive(i, false, derived))
	}
	s.LongTermRefPicsPresent = chance(r, 1, 3)
	if s.LongTermRefPicsPresent {
		n := pick(r, 0, 1, 1, 2, 3, r.Intn(33))
		for i := 0; i < n; i++ {
			s.LtRefPicPocLsbSps = append(s.LtRefPicPocLsbSps, r.Uint64()&(1<<(s.Log2MaxPocLsbMinus4+4)-1))
			s.UsedByCurrPicLtSps = append(s.UsedByCurrPicLtSps, b())
		}
	}
	s.TemporalMvp, s.StrongIntraSmoothing = b(), b()
	if b() {
		s.VUI = genVUI(r, int(s.MaxSubLayersMinus1), !opt.NoAspectIdc0)
	}
	s.ExtensionPresent = chance(r, 1, 3)
	if s.ExtensionPresent {
		if b() {
			s.Range = &SPSRangeExt{b(), b(), b(), b(), b(), b(), b(), b(), b()}
		}
		if chance(r, 1, 3) {
			s.Multilayer = &SPSMultilayerExt{b()}
		}
		if chance(r, 1, 3) {
			s.D3 = &SPS3DExt{IvDiMcEnabled: [2]bool{b(), b()}, IvMvScalEnabled: [2]bool{b(), b()}, Log2IvmcSubPbSizeMinus3: uint64(r.Intn(4)),
				IvResPredEnabled: b(), DepthRefEnabled: b(), VspMcEnabled: b(), DbbpEnabled: b(), TexMcEnabled: b(), Log2TexmcSubPbSizeMinus3: uint64(r.Intn(4)),
				IntraContourEnabled: b(), IntraDcOnlyWedgeEnabled: b(), CqtCuPartPredEnabled: b(), InterDcOnlyEnabled: b(), SkipIntraEnabled: b()}
		}
		if b() {
			x := &SPSSccExt{CurrPicRefEnabled: b(), PaletteModeEnabled: b(), PaletteMaxSize: uint64(r.Intn(64)), DeltaPaletteMaxPredictorSize: uint64(r.Intn(128)),
				PalettePredictorInitializersPresent: b(), MotionVectorResolutionControlIdc: uint64(r.Intn(3)), IntraBoundaryFilteringDisabled: b()}
			comps := 3
			if s.ChromaFormatIdc == 0 {
				comps = 1
			}
			n := pick(r, 1, 2, 1+r.Intn(16))
			x.PaletteInit = make([][]uint64, comps)
			for c := 0; c < comps; c++ {
				bits := s.BitDepthLumaMinus8 + 8
				if c > 0 {
					bits = s.BitDepthChromaMinus8 + 8
				}
				for i := 0; i < n; i++ {
					x.PaletteInit[c] = append(x.PaletteInit[c], r.Uint64()&(1<<bits-1))
				}
			}
			s.Scc = x
		}
		if chance(r, 1, 6) {
			s.Extension4bits = uint8(rng(r, 1, 15))
			for i := r.Intn(12); i > 0; i-- {
				s.ExtensionData = append(s.ExtensionData, b())
			}
		}
	}
	return s
}
