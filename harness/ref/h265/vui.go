package h265

import "verifharness/ref/h264"

// HRDEntry is one entry of sub_layer_hrd_parameters( ) (E.2.3).
type HRDEntry struct {
	BitRateValueMinus1   uint64
	CpbSizeValueMinus1   uint64
	CpbSizeDuValueMinus1 uint64
	BitRateDuValueMinus1 uint64
	Cbr                  bool
}

// SubLayerHRD is one iteration of the sub-layer loop of hrd_parameters( ).
type SubLayerHRD struct {
	FixedPicRateGeneral         bool
	FixedPicRateWithinCvs       bool // coded when !FixedPicRateGeneral, else inferred 1
	ElementalDurationInTcMinus1 uint64
	LowDelayHrd                 bool
	CpbCntMinus1                uint64 // coded when !low_delay_hrd_flag, else inferred 0
	Nal, Vcl                    []HRDEntry
}

// HRD is hrd_parameters( 1, maxNumSubLayersMinus1 ) (E.2.2).
type HRD struct {
	NalPresent, VclPresent                 bool
	SubPicPresent                          bool
	TickDivisorMinus2                      uint8
	DuCpbRemovalDelayIncrementLengthMinus1 uint8
	SubPicCpbParamsInPicTimingSei          bool
	DpbOutputDelayDuLengthMinus1           uint8
	BitRateScale, CpbSizeScale             uint8
	CpbSizeDuScale                         uint8
	InitialCpbRemovalDelayLengthMinus1     uint8
	AuCpbRemovalDelayLengthMinus1          uint8
	DpbOutputDelayLengthMinus1             uint8
	Sub                                    []SubLayerHRD // maxNumSubLayersMinus1+1 entries
}

// VUI is vui_parameters( ) (E.2.1).
type VUI struct {
	AspectRatioInfoPresent         bool
	AspectRatioIdc                 uint8
	SarWidth, SarHeight            uint16
	OverscanInfoPresent            bool
	OverscanAppropriate            bool
	VideoSignalTypePresent         bool
	VideoFormat                    uint8
	VideoFullRange                 bool
	ColourDescriptionPresent       bool
	ColourPrimaries                uint8
	TransferCharacteristics        uint8
	MatrixCoeffs                   uint8
	ChromaLocInfoPresent           bool
	ChromaSampleLocTypeTopField    uint64
	ChromaSampleLocTypeBottomField uint64
	NeutralChromaIndication        bool
	FieldSeq                       bool
	FrameFieldInfoPresent          bool
	DefaultDisplayWindow           bool
	DefDispWin                     [4]uint64 // left, right, top, bottom
	TimingInfoPresent              bool
	NumUnitsInTick, TimeScale      uint32
	PocProportionalToTiming        bool
	NumTicksPocDiffOneMinus1       uint64
	HRD                            *HRD
	BitstreamRestriction           bool
	TilesFixedStructure            bool
	MotionVectorsOverPicBoundaries bool
	RestrictedRefPicLists          bool
	MinSpatialSegmentationIdc      uint64
	MaxBytesPerPicDenom            uint64
	MaxBitsPerMinCuDenom           uint64
	Log2MaxMvLengthHorizontal      uint64
	Log2MaxMvLengthVertical        uint64
}

func emitSubLayerHRD(e *Enc, p string, ents []HRDEntry, subPic bool) {
	for i, x := range ents {
		e.UE(idx(p+".bit_rate_value_minus1", i), x.BitRateValueMinus1)
		e.UE(idx(p+".cpb_size_value_minus1", i), x.CpbSizeValueMinus1)
		if subPic {
			e.UE(idx(p+".cpb_size_du_value_minus1", i), x.CpbSizeDuValueMinus1)
			e.UE(idx(p+".bit_rate_du_value_minus1", i), x.BitRateDuValueMinus1)
		}
		e.Flag(idx(p+".cbr_flag", i), x.Cbr)
	}
	e.Derived("len("+p+")", int64(len(ents)))
}

func emitHRD(e *Enc, h *HRD, maxSubLayersMinus1 int) {
	e.Flag("nal_hrd_parameters_present_flag", h.NalPresent)
	e.Flag("vcl_hrd_parameters_present_flag", h.VclPresent)
	if h.NalPresent || h.VclPresent {
		e.Flag("sub_pic_hrd_params_present_flag", h.SubPicPresent)
		if h.SubPicPresent {
			e.Branch("hrd/sub-pic-params")
			e.U("tick_divisor_minus2", uint64(h.TickDivisorMinus2), 8)
			e.U("du_cpb_removal_delay_increment_length_minus1", uint64(h.DuCpbRemovalDelayIncrementLengthMinus1), 5)
			e.Flag("sub_pic_cpb_params_in_pic_timing_sei_flag", h.SubPicCpbParamsInPicTimingSei)
			e.U("dpb_output_delay_du_length_minus1", uint64(h.DpbOutputDelayDuLengthMinus1), 5)
		}
		e.U("bit_rate_scale", uint64(h.BitRateScale), 4)
		e.U("cpb_size_scale", uint64(h.CpbSizeScale), 4)
		if h.SubPicPresent {
			e.U("cpb_size_du_scale", uint64(h.CpbSizeDuScale), 4)
		}
		e.U("initial_cpb_removal_delay_length_minus1", uint64(h.InitialCpbRemovalDelayLengthMinus1), 5)
		e.U("au_cpb_removal_delay_length_minus1", uint64(h.AuCpbRemovalDelayLengthMinus1), 5)
		e.U("dpb_output_delay_length_minus1", uint64(h.DpbOutputDelayLengthMinus1), 5)
	} else {
		e.Branch("hrd/neither-nal-nor-vcl")
	}
	for i := 0; i <= maxSubLayersMinus1; i++ {
		s := h.Sub[i]
		e.Flag(idx("fixed_pic_rate_general_flag", i), s.FixedPicRateGeneral)
		within := true
		if !s.FixedPicRateGeneral {
			e.Flag(idx("fixed_pic_rate_within_cvs_flag", i), s.FixedPicRateWithinCvs)
			within = s.FixedPicRateWithinCvs
		}
		lowDelay := false
		if within {
			e.UE(idx("elemental_duration_in_tc_minus1", i), s.ElementalDurationInTcMinus1)
		} else {
			e.Flag(idx("low_delay_hrd_flag", i), s.LowDelayHrd)
			lowDelay = s.LowDelayHrd
		}
		cnt := 1
		if !lowDelay {
			e.UE(idx("cpb_cnt_minus1", i), s.CpbCntMinus1)
			cnt = int(s.CpbCntMinus1) + 1
		} else {
			e.Branch("hrd/low-delay(cpb_cnt inferred)")
		}
		if h.NalPresent {
			e.Branch("hrd/nal")
			emitSubLayerHRD(e, idx("nal_hrd", i), s.Nal[:cnt], h.SubPicPresent)
		}
		if h.VclPresent {
			e.Branch("hrd/vcl")
			emitSubLayerHRD(e, idx("vcl_hrd", i), s.Vcl[:cnt], h.SubPicPresent)
		}
	}
}

func emitVUI(e *Enc, v *VUI, maxSubLayersMinus1 int) {
	e.Flag("aspect_ratio_info_present_flag", v.AspectRatioInfoPresent)
	if v.AspectRatioInfoPresent {
		e.U("aspect_ratio_idc", uint64(v.AspectRatioIdc), 8)
		switch {
		case v.AspectRatioIdc == 255:
			e.Branch("vui/extended-sar")
			e.U("sar_width", uint64(v.SarWidth), 16)
			e.U("sar_height", uint64(v.SarHeight), 16)
		case v.AspectRatioIdc == 0:
			e.Branch("vui/aspect_ratio_idc=0")
		case int(v.AspectRatioIdc) < len(h264.SARTable):
			e.Branch("vui/table-sar")
			e.Derived("sar_width", int64(h264.SARTable[v.AspectRatioIdc][0]))
			e.Derived("sar_height", int64(h264.SARTable[v.AspectRatioIdc][1]))
		}
	}
	e.Flag("overscan_info_present_flag", v.OverscanInfoPresent)
	if v.OverscanInfoPresent {
		e.Flag("overscan_appropriate_flag", v.OverscanAppropriate)
	}
	e.Flag("video_signal_type_present_flag", v.VideoSignalTypePresent)
	if v.VideoSignalTypePresent {
		e.U("video_format", uint64(v.VideoFormat), 3)
		e.Flag("video_full_range_flag", v.VideoFullRange)
		e.Flag("colour_description_present_flag", v.ColourDescriptionPresent)
		if v.ColourDescriptionPresent {
			e.Branch("vui/colour-description")
			e.U("colour_primaries", uint64(v.ColourPrimaries), 8)
			e.U("transfer_characteristics", uint64(v.TransferCharacteristics), 8)
			e.U("matrix_coeffs", uint64(v.MatrixCoeffs), 8)
		}
	}
	e.Flag("chroma_loc_info_present_flag", v.ChromaLocInfoPresent)
	if v.ChromaLocInfoPresent {
		e.UE("chroma_sample_loc_type_top_field", v.ChromaSampleLocTypeTopField)
		e.UE("chroma_sample_loc_type_bottom_field", v.ChromaSampleLocTypeBottomField)
	}
	e.Flag("neutral_chroma_indication_flag", v.NeutralChromaIndication)
	e.Flag("field_seq_flag", v.FieldSeq)
	e.Flag("frame_field_info_present_flag", v.FrameFieldInfoPresent)
	e.Flag("default_display_window_flag", v.DefaultDisplayWindow)
	if v.DefaultDisplayWindow {
		e.Branch("vui/default-display-window")
		e.UE("def_disp_win_left_offset", v.DefDispWin[0])
		e.UE("def_disp_win_right_offset", v.DefDispWin[1])
		e.UE("def_disp_win_top_offset", v.DefDispWin[2])
		e.UE("def_disp_win_bottom_offset", v.DefDispWin[3])
	}
	e.Flag("vui_timing_info_present_flag", v.TimingInfoPresent)
	if v.TimingInfoPresent {
		e.Branch("vui/timing")
		e.U("vui_num_units_in_tick", uint64(v.NumUnitsInTick), 32)
		e.U("vui_time_scale", uint64(v.TimeScale), 32)
		e.Flag("vui_poc_proportional_to_timing_flag", v.PocProportionalToTiming)
		if v.PocProportionalToTiming {
			e.UE("vui_num_ticks_poc_diff_one_minus1", v.NumTicksPocDiffOneMinus1)
		}
		e.Flag("vui_hrd_parameters_present_flag", v.HRD != nil)
		if v.HRD != nil {
			e.Branch("vui/hrd")
			emitHRD(e, v.HRD, maxSubLayersMinus1)
		}
	}
	e.Flag("bitstream_restriction_flag", v.BitstreamRestriction)
	if v.BitstreamRestriction {
		e.Branch("vui/bitstream-restriction")
		e.Flag("tiles_fixed_structure_flag", v.TilesFixedStructure)
		e.Flag("motion_vectors_over_pic_boundaries_flag", v.MotionVectorsOverPicBoundaries)
		e.Flag("restricted_ref_pic_lists_flag", v.RestrictedRefPicLists)
		e.UE("min_spatial_segmentation_idc", v.MinSpatialSegmentationIdc)
		e.UE("max_bytes_per_pic_denom", v.MaxBytesPerPicDenom)
		e.UE("max_bits_per_min_cu_denom", v.MaxBitsPerMinCuDenom)
		e.UE("log2_max_mv_length_horizontal", v.Log2MaxMvLengthHorizontal)
		e.UE("log2_max_mv_length_vertical", v.Log2MaxMvLengthVertical)
	}
}

func genBig(r Rng) uint64 {
	switch r.Intn(6) {
	case 0:
		return 0
	case 1:
		return 1<<32 - 2
	case 2:
		return uint64(r.Intn(1 << 16))
	case 3:
		return uint64(1)<<uint(r.Intn(32)) - 1
	}
	return r.Uint64() % (1<<32 - 1)
}

func genHRD(r Rng, maxSubLayersMinus1 int) *HRD {
	b := func() bool { return chance(r, 1, 2) }
	h := &HRD{NalPresent: b(), VclPresent: b(), SubPicPresent: chance(r, 1, 3), TickDivisorMinus2: uint8(r.Intn(256)),
		DuCpbRemovalDelayIncrementLengthMinus1: uint8(r.Intn(32)), SubPicCpbParamsInPicTimingSei: b(), DpbOutputDelayDuLengthMinus1: uint8(r.Intn(32)),
		BitRateScale: uint8(r.Intn(16)), CpbSizeScale: uint8(r.Intn(16)), CpbSizeDuScale: uint8(r.Intn(16)),
		InitialCpbRemovalDelayLengthMinus1: uint8(r.Intn(32)), AuCpbRemovalDelayLengthMinus1: uint8(r.Intn(32)), DpbOutputDelayLengthMinus1: uint8(r.Intn(32))}
	for i := 0; i <= maxSubLayersMinus1; i++ {
		s := SubLayerHRD{FixedPicRateGeneral: b(), FixedPicRateWithinCvs: b(), ElementalDurationInTcMinus1: uint64(pick(r, 0, 1, 2047, r.Intn(2048))),
			LowDelayHrd: b(), CpbCntMinus1: uint64(pick(r, 0, 0, 1, 2, r.Intn(32)))}
		for k := 0; k <= int(s.CpbCntMinus1); k++ {
			s.Nal = append(s.Nal, HRDEntry{genBig(r), genBig(r), genBig(r), genBig(r), b()})
			s.Vcl = append(s.Vcl, HRDEntry{genBig(r), genBig(r), genBig(r), genBig(r), b()})
		}
		h.Sub = append(h.Sub, s)
	}
	return h
}

func genVUI(r Rng, maxSubLayersMinus1 int, allowIdc0 bool) *VUI {
	b := func() bool { return chance(r, 1, 2) }
	v := &VUI{}
	v.AspectRatioInfoPresent = b()
	if v.AspectRatioInfoPresent {
		switch {
		case chance(r, 1, 3):
			v.AspectRatioIdc = 255
			v.SarWidth = uint16(pick(r, 0, 1, 65535, r.Intn(65536)))
			v.SarHeight = uint16(pick(r, 0, 1, 65535, r.Intn(65536)))
		case allowIdc0 && chance(r, 1, 8):
			v.AspectRatioIdc = 0
		default:
			v.AspectRatioIdc = uint8(rng(r, 1, 16))
		}
	}
	v.OverscanInfoPresent, v.OverscanAppropriate = b(), b()
	v.VideoSignalTypePresent, v.VideoFormat, v.VideoFullRange, v.ColourDescriptionPresent = b(), uint8(r.Intn(8)), b(), b()
	v.ColourPrimaries, v.TransferCharacteristics, v.MatrixCoeffs = uint8(r.Intn(256)), uint8(r.Intn(256)), uint8(r.Intn(256))
	v.ChromaLocInfoPresent = b()
	v.ChromaSampleLocTypeTopField, v.ChromaSampleLocTypeBottomField = uint64(r.Intn(6)), uint64(r.Intn(6))
	v.NeutralChromaIndication, v.FieldSeq, v.FrameFieldInfoPresent = b(), b(), b()
	v.DefaultDisplayWindow = b()
	for i := range v.DefDispWin {
		v.DefDispWin[i] = uint64(pick(r, 0, 1, 4, r.Intn(100)))
	}
	v.TimingInfoPresent = b()
	v.NumUnitsInTick = uint32(pick(r, 1, 1001, 1<<32-1, int(r.Uint64()&0xffffffff)))
	v.TimeScale = uint32(pick(r, 50, 60000, 1<<32-1, int(r.Uint64()&0xffffffff)))
	v.PocProportionalToTiming = b()
	v.NumTicksPocDiffOneMinus1 = genBig(r)
	if chance(r, 1, 2) {
		v.HRD = genHRD(r, maxSubLayersMinus1)
	}
	v.BitstreamRestriction = b()
	v.TilesFixedStructure, v.MotionVectorsOverPicBoundaries, v.RestrictedRefPicLists = b(), b(), b()
	v.MinSpatialSegmentationIdc = uint64(r.Intn(4096))
	v.MaxBytesPerPicDenom = uint64(r.Intn(17))
	v.MaxBitsPerMinCuDenom = uint64(r.Intn(17))
	v.Log2MaxMvLengthHorizontal = uint64(r.Intn(17))
	v.Log2MaxMvLengthVertical = uint64(r.Intn(16))
	return v
}
