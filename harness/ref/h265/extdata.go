package h265

// Long sps_extension_data_flag / pps_extension_data_flag runs (7.3.2.2.1,
// 7.3.2.3.1: "while( more_rbsp_data( ) ) xps_extension_data_flag"). The flags
// are reserved, any content is syntactically valid; a decoder has to find the
// end of the run with more_rbsp_data( ), i.e. by looking ahead for the last 1
// bit of the RBSP. The generator below places whole bytes of chosen content at
// byte-aligned positions of the NAL unit, so that the escaped NAL unit carries
// emulation prevention bytes inside the run (00 00 03 0x), zero bytes that need
// none (00 00 04, 00 03, unaligned zero runs) and literal 03 bytes.
// Everything here is additive: GenSPS/GenPPS do not call it.

// ExtensionDataStartBit returns the RBSP bit position of the first
// sps_extension_data_flag (whatever ExtensionData currently holds). The SPS
// must have ExtensionPresent set.
func (s *SPS) ExtensionDataStartBit() int {
	t := *s
	t.ExtensionData = nil
	if t.Extension4bits == 0 {
		t.Extension4bits = 1
	}
	cd := t.Encode(1)
	for _, el := range cd.Elems {
		if el.Name == "#len(sps_extension_data_flag)" {
			return el.Pos
		}
	}
	return -1
}

// ExtensionDataStartBit returns the RBSP bit position of the first
// pps_extension_data_flag. The PPS must have ExtensionPresent set.
func (p *PPS) ExtensionDataStartBit() int {
	t := *p
	t.ExtensionData = nil
	if t.Extension4bits == 0 {
		t.Extension4bits = 1
	}
	cd := t.Encode(1)
	for _, el := range cd.Elems {
		if el.Name == "#len(pps_extension_data_flag)" {
			return el.Pos
		}
	}
	return -1
}

// extDataChunks are byte strings placed at byte-aligned positions of the run.
var extDataChunks = [][]byte{
	{0, 0, 0},                   // 00 00 03 00
	{0, 0, 1},                   // 00 00 03 01 (start code emulation)
	{0, 0, 2},                   // 00 00 03 02
	{0, 0, 3},                   // 00 00 03 03
	{0, 0, 4},                   // no escape
	{0, 0, 0, 0, 0, 0},          // two escapes in a row
	{0, 0, 0, 0, 1},             // four-byte start code
	{0, 3},                      // literal 03 after one zero byte: stays
	{0, 3, 0, 0, 3},             // literal 03, then an escaped literal 03
	{3, 0, 0},                   // zeros at the end of a chunk: the next chunk decides
	{0},                         // one zero byte
	{0, 0},                      // two zero bytes, the next chunk decides
	{0x80, 0, 0, 2},             //
	{0xff},                      //
	{0, 0, 0x80},                // two zero bytes then a byte > 3
	{1, 0, 0, 0, 3, 0, 0, 0, 1}, //
}

// GenExtensionData draws 8..~100 extension data flags for a run that starts at
// RBSP bit startBit (RBSP and NAL unit have the same byte alignment): flags up
// to the next byte boundary, 1..8 chunks of whole bytes (1..9 bytes each), 0..7 closing flags.
func GenExtensionData(r Rng, startBit int) []bool {
	var out []bool
	bit := func(b bool) { out = append(out, b) }
	lead := (8 - startBit%8) % 8
	mode := r.Intn(3) // leading flags: zeros, ones, random
	for i := 0; i < lead; i++ {
		switch mode {
		case 0:
			bit(false)
		case 1:
			bit(true)
		default:
			bit(chance(r, 1, 2))
		}
	}
	for n := pick(r, 1, 1, 2, 2, 3, 4, rng(r, 1, 8)); n > 0 && len(out) < 88; n-- {
		var chunk []byte
		if chance(r, 1, 5) {
			chunk = []byte{byte(r.Intn(256)), byte(pick(r, 0, 0, 1, 3, r.Intn(256)))}
		} else {
			chunk = extDataChunks[r.Intn(len(extDataChunks))]
		}
		for _, by := range chunk {
			for k := 7; k >= 0; k-- {
				bit(by>>uint(k)&1 == 1)
			}
		}
	}
	tailMode := r.Intn(3)
	for i := r.Intn(8); i > 0; i-- {
		switch tailMode {
		case 0:
			bit(false)
		case 1:
			bit(true)
		default:
			bit(chance(r, 1, 2))
		}
	}
	return out
}

// DrawLongExtensionData replaces the extension data flags of an SPS that has
// sps_extension_present_flag = 1 (sps_extension_4bits is made non-zero when it
// is 0) by a GenExtensionData run. It returns false for an SPS without extension.
func (s *SPS) DrawLongExtensionData(r Rng) bool {
	if !s.ExtensionPresent {
		return false
	}
	if s.Extension4bits == 0 {
		s.Extension4bits = uint8(rng(r, 1, 15))
	}
	s.ExtensionData = GenExtensionData(r, s.ExtensionDataStartBit())
	return true
}

// DrawLongExtensionData does the same for a PPS with pps_extension_present_flag = 1.
func (p *PPS) DrawLongExtensionData(r Rng) bool {
	if !p.ExtensionPresent {
		return false
	}
	if p.Extension4bits == 0 {
		p.Extension4bits = uint8(rng(r, 1, 15))
	}
	p.ExtensionData = GenExtensionData(r, p.ExtensionDataStartBit())
	return true
}
