package h265

import "fmt"

// PPSRangeExt is pps_range_extension( ) (7.3.2.3.2).
type PPSRangeExt struct {
	Log2MaxTransformSkipBlockSizeMinus2 uint64 // coded when transform_skip_enabled_flag
	CrossComponentPredictionEnabled     bool
	ChromaQpOffsetListEnabled           bool
	DiffCuChromaQpOffsetDepth           uint64
	CbQpOffsetList, CrQpOffsetList      []int64 // chroma_qp_offset_list_len_minus1+1 entries
	Log2SaoOffsetScaleLuma              uint64
	Log2SaoOffsetScaleChroma            uint64
}

// RefLocOffset is one iteration of the num_ref_loc_offsets loop (F.7.3.2.3.4).
type RefLocOffset struct {
	LayerId                 uint64
	ScaledRefLayerPresent   bool
	ScaledRefLayer          [4]int64 // left, top, right, bottom
	RefRegionPresent        bool
	RefRegion               [4]int64
	ResamplePhaseSetPresent bool
	Phase                   [4]uint64 // hor_luma, ver_luma, hor_chroma_plus8, ver_chroma_plus8
}

// ResCoeff is one (res_coeff_q, res_coeff_r, res_coeff_s) triple.
type ResCoeff struct {
	Q, R uint64
	S    bool
}

// OctantLeaf holds the coded_res_flag / coefficients of one (idxShiftY, idxCb, idxCr).
type OctantLeaf struct {
	Coded [4]bool
	Res   [4][3]ResCoeff
}

// OctantNode is colour_mapping_octants( ) (F.7.3.2.3.6): split into 8 children or PartNumY leaves.
type OctantNode struct {
	Split    bool
	Children []*OctantNode // 8 when Split
	Leaves   []OctantLeaf  // PartNumY when !Split
}

// ColourMappingTable is colour_mapping_table( ) (F.7.3.2.3.5).
type ColourMappingTable struct {
	RefLayerId                   []uint64 // num_cm_ref_layers_minus1+1 entries
	OctantDepth                  uint64
	YPartNumLog2                 uint64
	LumaBitDepthCmInputMinus8    uint64
	ChromaBitDepthCmInputMinus8  uint64
	LumaBitDepthCmOutputMinus8   uint64
	ChromaBitDepthCmOutputMinus8 uint64
	ResQuantBits                 uint64
	DeltaFlcBitsMinus1           uint64
	AdaptThresholdUDelta         int64
	AdaptThresholdVDelta         int64
	Root                         *OctantNode
}

// PPSMultilayerExt is pps_multilayer_extension( ) (F.7.3.2.3.4).
type PPSMultilayerExt struct {
	PocResetInfoPresent   bool
	InferScalingList      bool
	ScalingListRefLayerId uint64
	RefLoc                []RefLocOffset
	ColourMapping         *ColourMappingTable
}

// DeltaDlt is delta_dlt( ) (I.7.3.2.3.8).
type DeltaDlt struct {
	NumVal          uint64
	MaxDiff         uint64
	MinDiffMinus1   uint64 // coded when NumVal > 2 && MaxDiff > 0
	Val0            uint64
	ValDiffMinusMin []uint64 // NumVal-1 entries when MaxDiff > MinDiffMinus1+1
}

// DepthLayer is one iteration of the depth-layer loop of pps_3d_extension( ).
type DepthLayer struct {
	DltFlag, DltPred, DltValFlagsPresent bool
	DltValueFlag                         []bool
	Delta                                *DeltaDlt
}

// PPS3DExt is pps_3d_extension( ) (I.7.3.2.3.7).
type PPS3DExt struct {
	DltsPresent                  bool
	BitDepthForDepthLayersMinus8 uint64
	Layers                       []DepthLayer // pps_depth_layers_minus1+1
}

// PPSSccExt is pps_scc_extension( ) (7.3.2.3.3).
type PPSSccExt struct {
	CurrPicRefEnabled                      bool
	ResidualAdaptiveColourTransformEnabled bool
	SliceActQpOffsetsPresent               bool
	ActYQpOffsetPlus5, ActCbQpOffsetPlus5  int64
	ActCrQpOffsetPlus3                     int64
	PalettePredictorInitializersPresent    bool
	Monochrome                             bool
	LumaBitDepthEntryMinus8                uint64
	ChromaBitDepthEntryMinus8              uint64
	PaletteInit                            [][]uint64 // [comp][i]; empty: pps_num_palette_predictor_initializers 0
}

// PPS is the value record of pic_parameter_set_rbsp( ) (7.3.2.3.1).
type PPS struct {
	ID, SPSID                          uint64
	DependentSliceSegmentsEnabled      bool
	OutputFlagPresent                  bool
	NumExtraSliceHeaderBits            uint64
	SignDataHidingEnabled              bool
	CabacInitPresent                   bool
	NumRefIdxL0DefaultActiveMinus1     uint64
	NumRefIdxL1DefaultActiveMinus1     uint64
	InitQpMinus26                      int64
	ConstrainedIntraPred               bool
	TransformSkipEnabled               bool
	CuQpDeltaEnabled                   bool
	DiffCuQpDeltaDepth                 uint64
	CbQpOffset, CrQpOffset             int64
	SliceChromaQpOffsetsPresent        bool
	WeightedPred, WeightedBipred       bool
	TransquantBypassEnabled            bool
	TilesEnabled                       bool
	EntropyCodingSyncEnabled           bool
	NumTileColumnsMinus1               uint64
	NumTileRowsMinus1                  uint64
	UniformSpacing                     bool
	ColumnWidthMinus1, RowHeightMinus1 []uint64
	LoopFilterAcrossTilesEnabled       bool
	LoopFilterAcrossSlicesEnabled      bool
	DeblockingFilterControlPresent     bool
	DeblockingFilterOverrideEnabled    bool
	DeblockingFilterDisabled           bool
	BetaOffsetDiv2, TcOffsetDiv2       int64
	ScalingListData                    *ScalingListData
	ListsModificationPresent           bool
	Log2ParallelMergeLevelMinus2       uint64
	SliceSegmentHeaderExtensionPresent bool
	ExtensionPresent                   bool
	Range                              *PPSRangeExt
	Multilayer                         *PPSMultilayerExt
	D3                                 *PPS3DExt
	Scc                                *PPSSccExt
	Extension4bits                     uint8
	ExtensionData                      []bool
}

// CurrPicRef tells whether pps_curr_pic_ref_enabled_flag is coded as 1.
func (p *PPS) CurrPicRef() bool { return p.ExtensionPresent && p.Scc != nil && p.Scc.CurrPicRefEnabled }

func cmResLsBits(t *ColourMappingTable) int {
	n := 10 + int(t.LumaBitDepthCmInputMinus8+8) - int(t.LumaBitDepthCmOutputMinus8+8) - int(t.ResQuantBits) - int(t.DeltaFlcBitsMinus1+1)
	if n < 0 {
		n = 0
	}
	return n
}

func emitOctants(e *Enc, t *ColourMappingTable, n *OctantNode, inpDepth, idxY, idxCb, idxCr, inpLength uint64, leaves *int) {
	partNumY := uint64(1) << t.YPartNumLog2
	split := false
	if inpDepth < t.OctantDepth {
		e.Flag(fmt.Sprintf("split_octant_flag[%d][%d][%d][%d]", inpDepth, idxY, idxCb, idxCr), n.Split)
		split = n.Split
	}
	if split {
		e.Branch("pps/colour-mapping-split-octant")
		i := 0
		for k := uint64(0); k < 2; k++ {
			for m := uint64(0); m < 2; m++ {
				for q := uint64(0); q < 2; q++ {
					emitOctants(e, t, n.Children[i], inpDepth+1, idxY+partNumY*k*inpLength/2, idxCb+m*inpLength/2, idxCr+q*inpLength/2, inpLength/2, leaves)
					i++
				}
			}
		}
		return
	}
	lsb := cmResLsBits(t)
	for i := uint64(0); i < partNumY; i++ {
		idxShiftY := idxY + (i << (t.OctantDepth - inpDepth))
		key := fmt.Sprintf("%d-%d-%d", idxShiftY, idxCb, idxCr)
		lf := n.Leaves[i]
		*leaves++
		for j := 0; j < 4; j++ {
			e.Flag(fmt.Sprintf("coded_res_flag[%s][%d]", key, j), lf.Coded[j])
			if lf.Coded[j] {
				for c := 0; c < 3; c++ {
					rc := lf.Res[j][c]
					e.UE(fmt.Sprintf("res_coeff_q[%s][%d][%d]", key, j, c), rc.Q)
					if lsb > 0 {
						e.U(fmt.Sprintf("res_coeff_r[%s][%d][%d]", key, j, c), rc.R, lsb)
					}
					if rc.Q != 0 || (lsb > 0 && rc.R != 0) {
						e.Flag(fmt.Sprintf("res_coeff_s[%s][%d][%d]", key, j, c), rc.S)
					}
				}
			}
		}
	}
}

func emitDeltaDlt(e *Enc, p string, d *DeltaDlt, bits int) {
	e.U(p+".num_val_delta_dlt", d.NumVal, bits)
	if d.NumVal == 0 {
		return
	}
	if d.NumVal > 1 {
		e.U(p+".max_diff", d.MaxDiff, bits)
	}
	maxDiff := uint64(0)
	if d.NumVal > 1 {
		maxDiff = d.MaxDiff
	}
	minDiffMinus1 := int64(maxDiff) - 1
	if d.NumVal > 2 && maxDiff > 0 {
		e.U(p+".min_diff_minus1", d.MinDiffMinus1, CeilLog2(maxDiff+1))
		minDiffMinus1 = int64(d.MinDiffMinus1)
	}
	e.U(p+".delta_dlt_val0", d.Val0, bits)
	if int64(maxDiff) > minDiffMinus1+1 {
		e.Branch("pps/3d-delta_val_diff_minus_min")
		n := CeilLog2(uint64(int64(maxDiff) - (minDiffMinus1 + 1) + 1))
		for k := 1; k < int(d.NumVal); k++ {
			e.U(idx(p+".delta_val_diff_minus_min", k-1), d.ValDiffMinusMin[k-1], n)
		}
	}
}

// Encode emits the PPS NAL unit (nal_unit_type 34).
func (p *PPS) Encode(temporalIDPlus1 uint) *Coded {
	e := &Enc{}
	e.UE("pps_pic_parameter_set_id", p.ID)
	e.UE("pps_seq_parameter_set_id", p.SPSID)
	e.Flag("dependent_slice_segments_enabled_flag", p.DependentSliceSegmentsEnabled)
	e.Flag("output_flag_present_flag", p.OutputFlagPresent)
	e.U("num_extra_slice_header_bits", p.NumExtraSliceHeaderBits, 3)
	e.Flag("sign_data_hiding_enabled_flag", p.SignDataHidingEnabled)
	e.Flag("cabac_init_present_flag", p.CabacInitPresent)
	e.UE("num_ref_idx_l0_default_active_minus1", p.NumRefIdxL0DefaultActiveMinus1)
	e.UE("num_ref_idx_l1_default_active_minus1", p.NumRefIdxL1DefaultActiveMinus1)
	e.SE("init_qp_minus26", p.InitQpMinus26)
	e.Flag("constrained_intra_pred_flag", p.ConstrainedIntraPred)
	e.Flag("transform_skip_enabled_flag", p.TransformSkipEnabled)
	e.Flag("cu_qp_delta_enabled_flag", p.CuQpDeltaEnabled)
	if p.CuQpDeltaEnabled {
		e.UE("diff_cu_qp_delta_depth", p.DiffCuQpDeltaDepth)
	}
	e.SE("pps_cb_qp_offset", p.CbQpOffset)
	e.SE("pps_cr_qp_offset", p.CrQpOffset)
	e.Flag("pps_slice_chroma_qp_offsets_present_flag", p.SliceChromaQpOffsetsPresent)
	e.Flag("weighted_pred_flag", p.WeightedPred)
	e.Flag("weighted_bipred_flag", p.WeightedBipred)
	e.Flag("transquant_bypass_enabled_flag", p.TransquantBypassEnabled)
	e.Flag("tiles_enabled_flag", p.TilesEnabled)
	e.Flag("entropy_coding_sync_enabled_flag", p.EntropyCodingSyncEnabled)
	if p.TilesEnabled {
		e.Branch("pps/tiles")
		e.UE("num_tile_columns_minus1", p.NumTileColumnsMinus1)
		e.UE("num_tile_rows_minus1", p.NumTileRowsMinus1)
		e.Flag("uniform_spacing_flag", p.UniformSpacing)
		if !p.UniformSpacing {
			e.Branch("pps/tiles-explicit-spacing")
			for i := 0; i < int(p.NumTileColumnsMinus1); i++ {
				e.UE(idx("column_width_minus1", i), p.ColumnWidthMinus1[i])
			}
			for i := 0; i < int(p.NumTileRowsMinus1); i++ {
				e.UE(idx("row_height_minus1", i), p.RowHeightMinus1[i])
			}
			e.Derived("len(column_width_minus1)", int64(p.NumTileColumnsMinus1))
			e.Derived("len(row_height_minus1)", int64(p.NumTileRowsMinus1))
		}
		e.Flag("loop_filter_across_tiles_enabled_flag", p.LoopFilterAcrossTilesEnabled)
	}
	e.Flag("pps_loop_filter_across_slices_enabled_flag", p.LoopFilterAcrossSlicesEnabled)
	e.Flag("deblocking_filter_control_present_flag", p.DeblockingFilterControlPresent)
	if p.DeblockingFilterControlPresent {
		e.Branch("pps/deblocking-control")
		e.Flag("deblocking_filter_override_enabled_flag", p.DeblockingFilterOverrideEnabled)
		e.Flag("pps_deblocking_filter_disabled_flag", p.DeblockingFilterDisabled)
		if !p.DeblockingFilterDisabled {
			e.SE("pps_beta_offset_div2", p.BetaOffsetDiv2)
			e.SE("pps_tc_offset_div2", p.TcOffsetDiv2)
		}
	}
	e.Flag("pps_scaling_list_data_present_flag", p.ScalingListData != nil)
	if p.ScalingListData != nil {
		e.Branch("pps/scaling-list-data")
		emitScalingListData(e, "pps", p.ScalingListData)
	}
	e.Flag("lists_modification_present_flag", p.ListsModificationPresent)
	e.UE("log2_parallel_merge_level_minus2", p.Log2ParallelMergeLevelMinus2)
	e.Flag("slice_segment_header_extension_present_flag", p.SliceSegmentHeaderExtensionPresent)
	e.Flag("pps_extension_present_flag", p.ExtensionPresent)
	if p.ExtensionPresent {
		e.Branch("pps/extension")
		e.Flag("pps_range_extension_flag", p.Range != nil)
		e.Flag("pps_multilayer_extension_flag", p.Multilayer != nil)
		e.Flag("pps_3d_extension_flag", p.D3 != nil)
		e.Flag("pps_scc_extension_flag", p.Scc != nil)
		e.U("pps_extension_4bits", uint64(p.Extension4bits), 4)
		if x := p.Range; x != nil {
			e.Branch("pps/range-extension")
			if p.TransformSkipEnabled {
				e.UE("log2_max_transform_skip_block_size_minus2", x.Log2MaxTransformSkipBlockSizeMinus2)
			}
			e.Flag("cross_component_prediction_enabled_flag", x.CrossComponentPredictionEnabled)
			e.Flag("chroma_qp_offset_list_enabled_flag", x.ChromaQpOffsetListEnabled)
			if x.ChromaQpOffsetListEnabled {
				e.Branch("pps/range-chroma-qp-offset-list")
				e.UE("diff_cu_chroma_qp_offset_depth", x.DiffCuChromaQpOffsetDepth)
				e.UE("chroma_qp_offset_list_len_minus1", uint64(len(x.CbQpOffsetList)-1))
				for i := range x.CbQpOffsetList {
					e.SE(idx("cb_qp_offset_list", i), x.CbQpOffsetList[i])
					e.SE(idx("cr_qp_offset_list", i), x.CrQpOffsetList[i])
				}
			}
			e.UE("log2_sao_offset_scale_luma", x.Log2SaoOffsetScaleLuma)
			e.UE("log2_sao_offset_scale_chroma", x.Log2SaoOffsetScaleChroma)
		}
		if x := p.Multilayer; x != nil {
			e.Branch("pps/multilayer-extension")
			e.Flag("poc_reset_info_present_flag", x.PocResetInfoPresent)
			e.Flag("pps_infer_scaling_list_flag", x.InferScalingList)
			if x.InferScalingList {
				e.U("pps_scaling_list_ref_layer_id", x.ScalingListRefLayerId, 6)
			}
			e.UE("num_ref_loc_offsets", uint64(len(x.RefLoc)))
			for i, o := range x.RefLoc {
				e.U(idx("ref_loc_offset_layer_id", i), o.LayerId, 6)
				lid := int(o.LayerId)
				e.Flag(idx("scaled_ref_layer_offset_present_flag", lid), o.ScaledRefLayerPresent)
				if o.ScaledRefLayerPresent {
					for k, nm := range []string{"left", "top", "right", "bottom"} {
						e.SE(idx("scaled_ref_layer_"+nm+"_offset", lid), o.ScaledRefLayer[k])
					}
				} else {
					// F.7.4.3.3.4: inferred to be equal to 0 when not present
					for _, nm := range []string{"left", "top", "right", "bottom"} {
						e.Derived(idx("scaled_ref_layer_"+nm+"_offset", lid), 0)
					}
				}
				e.Flag(idx("ref_region_offset_present_flag", lid), o.RefRegionPresent)
				if o.RefRegionPresent {
					for k, nm := range []string{"left", "top", "right", "bottom"} {
						e.SE(idx("ref_region_"+nm+"_offset", lid), o.RefRegion[k])
					}
				} else {
					for _, nm := range []string{"left", "top", "right", "bottom"} {
						e.Derived(idx("ref_region_"+nm+"_offset", lid), 0)
					}
				}
				e.Flag(idx("resample_phase_set_present_flag", lid), o.ResamplePhaseSetPresent)
				if o.ResamplePhaseSetPresent {
					for k, nm := range []string{"phase_hor_luma", "phase_ver_luma", "phase_hor_chroma_plus8", "phase_ver_chroma_plus8"} {
						e.UE(idx(nm, lid), o.Phase[k])
					}
				} else {
					// the luma phases are inferred to be 0 (the chroma ones have other inferred values and are not listed)
					e.Derived(idx("phase_hor_luma", lid), 0)
					e.Derived(idx("phase_ver_luma", lid), 0)
				}
			}
			e.Flag("colour_mapping_enabled_flag", x.ColourMapping != nil)
			if t := x.ColourMapping; t != nil {
				e.Branch("pps/colour-mapping-table")
				e.UE("num_cm_ref_layers_minus1", uint64(len(t.RefLayerId)-1))
				for i, v := range t.RefLayerId {
					e.U(idx("cm_ref_layer_id", i), v, 6)
				}
				e.U("cm_octant_depth", t.OctantDepth, 2)
				e.U("cm_y_part_num_log2", t.YPartNumLog2, 2)
				e.UE("luma_bit_depth_cm_input_minus8", t.LumaBitDepthCmInputMinus8)
				e.UE("chroma_bit_depth_cm_input_minus8", t.ChromaBitDepthCmInputMinus8)
				e.UE("luma_bit_depth_cm_output_minus8", t.LumaBitDepthCmOutputMinus8)
				e.UE("chroma_bit_depth_cm_output_minus8", t.ChromaBitDepthCmOutputMinus8)
				e.U("cm_res_quant_bits", t.ResQuantBits, 2)
				e.U("cm_delta_flc_bits_minus1", t.DeltaFlcBitsMinus1, 2)
				if t.OctantDepth == 1 {
					e.SE("cm_adapt_threshold_u_delta", t.AdaptThresholdUDelta)
					e.SE("cm_adapt_threshold_v_delta", t.AdaptThresholdVDelta)
				}
				leaves := 0
				emitOctants(e, t, t.Root, 0, 0, 0, 0, 1<<t.OctantDepth, &leaves)
				e.Derived("len(octants)", int64(leaves))
			}
		}
		if x := p.D3; x != nil {
			e.Branch("pps/3d-extension")
			e.Flag("dlts_present_flag", x.DltsPresent)
			if x.DltsPresent {
				e.U("pps_depth_layers_minus1", uint64(len(x.Layers)-1), 6)
				e.U("pps_bit_depth_for_depth_layers_minus8", x.BitDepthForDepthLayersMinus8, 4)
				bits := int(x.BitDepthForDepthLayersMinus8 + 8)
				for i, l := range x.Layers {
					e.Flag(idx("dlt_flag", i), l.DltFlag)
					if !l.DltFlag {
						continue
					}
					e.Flag(idx("dlt_pred_flag", i), l.DltPred)
					valFlags := false
					if !l.DltPred {
						e.Flag(idx("dlt_val_flags_present_flag", i), l.DltValFlagsPresent)
						valFlags = l.DltValFlagsPresent
					}
					if valFlags {
						e.Branch("pps/3d-dlt-value-flags")
						for j := 0; j < 1<<uint(bits); j++ {
							e.Flag(idx2("dlt_value_flag", i, j), l.DltValueFlag[j])
						}
					} else {
						e.Branch("pps/3d-delta-dlt")
						emitDeltaDlt(e, idx("delta_dlt", i), l.Delta, bits)
					}
				}
			}
		}
		if x := p.Scc; x != nil {
			e.Branch("pps/scc-extension")
			e.Flag("pps_curr_pic_ref_enabled_flag", x.CurrPicRefEnabled)
			e.Flag("residual_adaptive_colour_transform_enabled_flag", x.ResidualAdaptiveColourTransformEnabled)
			if x.ResidualAdaptiveColourTransformEnabled {
				e.Flag("pps_slice_act_qp_offsets_present_flag", x.SliceActQpOffsetsPresent)
				e.SE("pps_act_y_qp_offset_plus5", x.ActYQpOffsetPlus5)
				e.SE("pps_act_cb_qp_offset_plus5", x.ActCbQpOffsetPlus5)
				e.SE("pps_act_cr_qp_offset_plus3", x.ActCrQpOffsetPlus3)
			}
			e.Flag("pps_palette_predictor_initializers_present_flag", x.PalettePredictorInitializersPresent)
			if x.PalettePredictorInitializersPresent {
				n := 0
				if len(x.PaletteInit) > 0 {
					n = len(x.PaletteInit[0])
				}
				e.UE("pps_num_palette_predictor_initializers", uint64(n))
				if n > 0 {
					e.Branch("pps/scc-palette-initializers")
					e.Flag("monochrome_palette_flag", x.Monochrome)
					e.UE("luma_bit_depth_entry_minus8", x.LumaBitDepthEntryMinus8)
					if !x.Monochrome {
						e.UE("chroma_bit_depth_entry_minus8", x.ChromaBitDepthEntryMinus8)
					}
					for comp := range x.PaletteInit {
						bits := int(x.LumaBitDepthEntryMinus8 + 8)
						if comp > 0 {
							bits = int(x.ChromaBitDepthEntryMinus8 + 8)
						}
						for i, v := range x.PaletteInit[comp] {
							e.U(idx2("pps_palette_predictor_initializer", comp, i), v, bits)
						}
					}
					e.Derived("len(pps_palette_predictor_initializer)", int64(len(x.PaletteInit)))
				}
			}
		}
		if p.Extension4bits != 0 {
			e.Branch("pps/extension-data-flags")
			for i, b := range p.ExtensionData {
				e.Flag(idx("pps_extension_data_flag", i), b)
			}
			e.Derived("len(pps_extension_data_flag)", int64(len(p.ExtensionData)))
		}
	}
	return e.Finish(NalHeader(34, temporalIDPlus1), true, 0)
}

func genOctants(r Rng, t *ColourMappingTable, depth uint64) *OctantNode {
	n := &OctantNode{}
	if depth < t.OctantDepth && chance(r, 1, 2) {
		n.Split = true
		for i := 0; i < 8; i++ {
			n.Children = append(n.Children, genOctants(r, t, depth+1))
		}
		return n
	}
	partNumY := 1 << t.YPartNumLog2
	lsb := cmResLsBits(t)
	for i := 0; i < partNumY; i++ {
		var lf OctantLeaf
		for j := 0; j < 4; j++ {
			lf.Coded[j] = chance(r, 1, 2)
			for c := 0; c < 3; c++ {
				rc := ResCoeff{Q: uint64(pick(r, 0, 0, 1, r.Intn(50))), S: chance(r, 1, 2)}
				if lsb > 0 {
					rc.R = r.Uint64() & (1<<uint(lsb) - 1)
					if chance(r, 1, 3) {
						rc.R = 0
					}
				}
				lf.Res[j][c] = rc
			}
		}
		n.Leaves = append(n.Leaves, lf)
	}
	return n
}

// PPSOpt steers GenPPS.
type PPSOpt struct {
	NoMultilayer bool
}

// GenPPS draws a syntactically valid PPS record referring to sps.
func GenPPS(r Rng, id uint64, sps *SPS, opt PPSOpt) *PPS {
	b := func() bool { return chance(r, 1, 2) }
	p := &PPS{ID: id, SPSID: sps.ID}
	p.DependentSliceSegmentsEnabled, p.OutputFlagPresent = b(), b()
	p.NumExtraSliceHeaderBits = uint64(pick(r, 0, 0, 1, 2, r.Intn(8)))
	p.SignDataHidingEnabled, p.CabacInitPresent = b(), b()
	p.NumRefIdxL0DefaultActiveMinus1 = uint64(pick(r, 0, 0, 1, 2, r.Intn(15)))
	p.NumRefIdxL1DefaultActiveMinus1 = uint64(pick(r, 0, 0, 1, 2, r.Intn(15)))
	p.InitQpMinus26 = int64(rng(r, -26-6*int(sps.BitDepthLumaMinus8), 25))
	p.ConstrainedIntraPred, p.TransformSkipEnabled, p.CuQpDeltaEnabled = b(), b(), b()
	p.DiffCuQpDeltaDepth = uint64(r.Intn(4))
	p.CbQpOffset, p.CrQpOffset = int64(rng(r, -12, 12)), int64(rng(r, -12, 12))
	p.SliceChromaQpOffsetsPresent, p.WeightedPred, p.WeightedBipred, p.TransquantBypassEnabled = b(), b(), b(), b()
	p.TilesEnabled, p.EntropyCodingSyncEnabled = chance(r, 1, 3), chance(r, 1, 3)
	if p.TilesEnabled {
		p.NumTileColumnsMinus1 = uint64(pick(r, 0, 1, 2, r.Intn(20)))
		p.NumTileRowsMinus1 = uint64(pick(r, 0, 1, 2, r.Intn(22)))
		p.UniformSpacing = b()
		for i := 0; i < int(p.NumTileColumnsMinus1); i++ {
			p.ColumnWidthMinus1 = append(p.ColumnWidthMinus1, uint64(r.Intn(30)))
		}
		for i := 0; i < int(p.NumTileRowsMinus1); i++ {
			p.RowHeightMinus1 = append(p.RowHeightMinus1, uint64(r.Intn(30)))
		}
		p.LoopFilterAcrossTilesEnabled = b()
	}
	p.LoopFilterAcrossSlicesEnabled = b()
	p.DeblockingFilterControlPresent = b()
	p.DeblockingFilterOverrideEnabled, p.DeblockingFilterDisabled = b(), b()
	p.BetaOffsetDiv2, p.TcOffsetDiv2 = int64(rng(r, -6, 6)), int64(rng(r, -6, 6))
	if chance(r, 1, 5) {
		p.ScalingListData = genScalingListData(r)
	}
	p.ListsModificationPresent = b()
	p.Log2ParallelMergeLevelMinus2 = uint64(r.Intn(5))
	p.SliceSegmentHeaderExtensionPresent = chance(r, 1, 3)
	p.ExtensionPresent = chance(r, 2, 5)
	if !p.ExtensionPresent {
		return p
	}
	if b() {
		x := &PPSRangeExt{Log2MaxTransformSkipBlockSizeMinus2: uint64(r.Intn(4)), CrossComponentPredictionEnabled: b(), ChromaQpOffsetListEnabled: b(),
			DiffCuChromaQpOffsetDepth: uint64(r.Intn(4)), Log2SaoOffsetScaleLuma: uint64(r.Intn(5)), Log2SaoOffsetScaleChroma: uint64(r.Intn(5))}
		for i := rng(r, 1, 6); i > 0; i-- {
			x.CbQpOffsetList = append(x.CbQpOffsetList, int64(rng(r, -12, 12)))
			x.CrQpOffsetList = append(x.CrQpOffsetList, int64(rng(r, -12, 12)))
		}
		p.Range = x
	}
	if !opt.NoMultilayer && chance(r, 1, 3) {
		x := &PPSMultilayerExt{PocResetInfoPresent: b(), InferScalingList: b(), ScalingListRefLayerId: uint64(r.Intn(63))}
		used := map[uint64]bool{}
		for i := r.Intn(4); i > 0; i-- {
			o := RefLocOffset{LayerId: uint64(r.Intn(63)), ScaledRefLayerPresent: b(), RefRegionPresent: b(), ResamplePhaseSetPresent: b()}
			if used[o.LayerId] {
				continue
			}
			used[o.LayerId] = true
			for k := 0; k < 4; k++ {
				o.ScaledRefLayer[k] = int64(pick(r, 0, -1, 1, -(1 << 14), 1<<14-1, rng(r, -16384, 16383)))
				o.RefRegion[k] = int64(pick(r, 0, -1, 1, -(1 << 14), 1<<14-1, rng(r, -16384, 16383)))
			}
			o.Phase = [4]uint64{uint64(r.Intn(32)), uint64(r.Intn(32)), uint64(r.Intn(64)), uint64(r.Intn(64))}
			x.RefLoc = append(x.RefLoc, o)
		}
		if b() {
			t := &ColourMappingTable{OctantDepth: uint64(r.Intn(2)), YPartNumLog2: uint64(r.Intn(3)),
				LumaBitDepthCmInputMinus8: uint64(r.Intn(5)), ChromaBitDepthCmInputMinus8: uint64(r.Intn(5)),
				LumaBitDepthCmOutputMinus8: uint64(r.Intn(9)), ChromaBitDepthCmOutputMinus8: uint64(r.Intn(9)),
				ResQuantBits: uint64(r.Intn(4)), DeltaFlcBitsMinus1: uint64(r.Intn(4)),
				AdaptThresholdUDelta: int64(rng(r, -50, 50)), AdaptThresholdVDelta: int64(rng(r, -50, 50))}
			for i := rng(r, 1, 3); i > 0; i-- {
				t.RefLayerId = append(t.RefLayerId, uint64(r.Intn(63)))
			}
			t.Root = genOctants(r, t, 0)
			x.ColourMapping = t
		}
		p.Multilayer = x
	}
	if chance(r, 1, 3) {
		x := &PPS3DExt{DltsPresent: b(), BitDepthForDepthLayersMinus8: uint64(pick(r, 0, 0, 1, 2))}
		bits := uint(x.BitDepthForDepthLayersMinus8 + 8)
		for i := rng(r, 1, 3); i > 0; i-- {
			l := DepthLayer{DltFlag: b(), DltPred: b(), DltValFlagsPresent: chance(r, 1, 3)}
			for j := 0; j < 1<<bits; j++ {
				l.DltValueFlag = append(l.DltValueFlag, b())
			}
			d := &DeltaDlt{NumVal: uint64(pick(r, 0, 1, 2, 3, 4, r.Intn(20)))}
			d.MaxDiff = uint64(pick(r, 0, 1, 2, 5, r.Intn(1<<bits)))
			maxDiff := uint64(0)
			if d.NumVal > 1 {
				maxDiff = d.MaxDiff
			}
			if maxDiff > 0 {
				d.MinDiffMinus1 = uint64(r.Intn(int(maxDiff))) // min_diff in 1..max_diff
			}
			d.Val0 = r.Uint64() & (1<<bits - 1)
			minDiff := int64(maxDiff) // inferred min_diff_minus1 = max_diff - 1
			if d.NumVal > 2 && maxDiff > 0 {
				minDiff = int64(d.MinDiffMinus1) + 1
			}
			if int64(maxDiff) > minDiff {
				for k := 1; k < int(d.NumVal); k++ {
					d.ValDiffMinusMin = append(d.ValDiffMinusMin, uint64(r.Intn(int(int64(maxDiff)-minDiff)+1)))
				}
			}
			l.Delta = d
			x.Layers = append(x.Layers, l)
		}
		p.D3 = x
	}
	if b() {
		x := &PPSSccExt{CurrPicRefEnabled: b(), ResidualAdaptiveColourTransformEnabled: b(), SliceActQpOffsetsPresent: b(),
			ActYQpOffsetPlus5: int64(rng(r, -7, 17)), ActCbQpOffsetPlus5: int64(rng(r, -7, 17)), ActCrQpOffsetPlus3: int64(rng(r, -9, 15)),
			PalettePredictorInitializersPresent: b(), Monochrome: chance(r, 1, 3), LumaBitDepthEntryMinus8: uint64(r.Intn(5)), ChromaBitDepthEntryMinus8: uint64(r.Intn(5))}
		n := pick(r, 0, 1, 2, r.Intn(16))
		if n > 0 {
			comps := 3
			if x.Monochrome {
				comps = 1
			}
			x.PaletteInit = make([][]uint64, comps)
			for c := 0; c < comps; c++ {
				bits := x.LumaBitDepthEntryMinus8 + 8
				if c > 0 {
					bits = x.ChromaBitDepthEntryMinus8 + 8
				}
				for i := 0; i < n; i++ {
					x.PaletteInit[c] = append(x.PaletteInit[c], r.Uint64()&(1<<bits-1))
				}
			}
		}
		if x.CurrPicRefEnabled {
			// pred_weight_table( ) omits the flags of a reference that is the current picture
			// (not knowable without list construction): keep weighted prediction off
			p.WeightedPred, p.WeightedBipred = false, false
		}
		p.Scc = x
	}
	if chance(r, 1, 6) {
		p.Extension4bits = uint8(rng(r, 1, 15))
		for i := r.Intn(12); i > 0; i-- {
			p.ExtensionData = append(p.ExtensionData, b())
		}
	}
	return p
}
