package h265

import (
	"strconv"
	"strings"
)

// CodecParams is what a "hev1.A1.80.L93.B0" style string (ISO/IEC 14496-15
// Annex E.3) denotes.
type CodecParams struct {
	Entry        string
	ProfileSpace uint8
	ProfileIdc   uint8
	Compat       uint32 // general_profile_compatibility_flag[0] as most significant bit (i.e. already un-reversed)
	Tier         bool
	LevelIdc     uint8
	Constraint   uint64 // 48 bits, missing trailing bytes are zero
}

func reverse32(v uint32) uint32 {
	var o uint32
	for i := 0; i < 32; i++ {
		o = o<<1 | v&1
		v >>= 1
	}
	return o
}

// ParseCodecString reads the string back. Optional trailing constraint bytes
// that are absent count as zero.
func ParseCodecString(s string) (p CodecParams, ok bool) {
	parts := strings.Split(s, ".")
	if len(parts) < 4 || len(parts) > 10 {
		return p, false
	}
	p.Entry = parts[0]
	prof := parts[1]
	if len(prof) > 0 && prof[0] >= 'A' && prof[0] <= 'C' {
		p.ProfileSpace = prof[0] - 'A' + 1
		prof = prof[1:]
	}
	v, err := strconv.ParseUint(prof, 10, 8)
	if err != nil || v > 31 {
		return p, false
	}
	p.ProfileIdc = uint8(v)
	c, err := strconv.ParseUint(parts[2], 16, 32)
	if err != nil {
		return p, false
	}
	p.Compat = reverse32(uint32(c))
	lv := parts[3]
	if len(lv) < 2 || (lv[0] != 'L' && lv[0] != 'H') {
		return p, false
	}
	p.Tier = lv[0] == 'H'
	v, err = strconv.ParseUint(lv[1:], 10, 8)
	if err != nil {
		return p, false
	}
	p.LevelIdc = uint8(v)
	for i := 0; i < 6; i++ {
		var b uint64
		if 4+i < len(parts) {
			b, err = strconv.ParseUint(parts[4+i], 16, 8)
			if err != nil {
				return p, false
			}
		}
		p.Constraint = p.Constraint<<8 | b
	}
	return p, true
}

// HVCCArray is one NAL-unit array of an HEVCDecoderConfigurationRecord.
type HVCCArray struct {
	Complete bool
	NalType  uint8
	Nalus    [][]byte
}

// HVCC is an independent reading of an HEVCDecoderConfigurationRecord
// (ISO/IEC 14496-15 8.3.3.1.2).
type HVCC struct {
	Version              uint8
	ProfileSpace         uint8
	Tier                 bool
	ProfileIdc           uint8
	Compat               uint32
	Constraint           uint64
	LevelIdc             uint8
	ChromaFormat         uint8
	BitDepthLumaMinus8   uint8
	BitDepthChromaMinus8 uint8
	LengthSizeMinusOne   uint8
	Arrays               []HVCCArray
	Trailing             int
}

// ParseHVCC reads the record; ok=false when truncated.
func ParseHVCC(b []byte) (h HVCC, ok bool) {
	if len(b) < 23 {
		return h, false
	}
	h.Version = b[0]
	h.ProfileSpace = b[1] >> 6
	h.Tier = b[1]>>5&1 == 1
	h.ProfileIdc = b[1] & 31
	h.Compat = uint32(b[2])<<24 | uint32(b[3])<<16 | uint32(b[4])<<8 | uint32(b[5])
	for i := 0; i < 6; i++ {
		h.Constraint = h.Constraint<<8 | uint64(b[6+i])
	}
	h.LevelIdc = b[12]
	h.ChromaFormat = b[16] & 3
	h.BitDepthLumaMinus8 = b[17] & 7
	h.BitDepthChromaMinus8 = b[18] & 7
	h.LengthSizeMinusOne = b[21] & 3
	n := int(b[22])
	p := 23
	for i := 0; i < n; i++ {
		if p+3 > len(b) {
			return h, false
		}
		a := HVCCArray{Complete: b[p]>>7 == 1, NalType: b[p] & 63}
		cnt := int(b[p+1])<<8 | int(b[p+2])
		p += 3
		for k := 0; k < cnt; k++ {
			if p+2 > len(b) {
				return h, false
			}
			l := int(b[p])<<8 | int(b[p+1])
			p += 2
			if p+l > len(b) {
				return h, false
			}
			a.Nalus = append(a.Nalus, b[p:p+l])
			p += l
		}
		h.Arrays = append(h.Arrays, a)
	}
	h.Trailing = len(b) - p
	return h, true
}

// VPS builds a minimal, well-formed video parameter set NAL unit (7.3.2.1)
// consistent with the given SPS; the hevc package only carries VPS NAL units.
func VPS(sps *SPS) []byte {
	e := &Enc{}
	e.U("vps_video_parameter_set_id", uint64(sps.VPSID), 4)
	e.U("vps_base_layer_internal_flag", 1, 1)
	e.U("vps_base_layer_available_flag", 1, 1)
	e.U("vps_max_layers_minus1", 0, 6)
	e.U("vps_max_sub_layers_minus1", uint64(sps.MaxSubLayersMinus1), 3)
	e.Flag("vps_temporal_id_nesting_flag", sps.TemporalIdNesting)
	e.U("vps_reserved_0xffff_16bits", 0xffff, 16)
	emitPTL(e, &sps.PTL, int(sps.MaxSubLayersMinus1))
	e.Flag("vps_sub_layer_ordering_info_present_flag", false)
	o := sps.Ordering[sps.MaxSubLayersMinus1]
	e.UE("vps_max_dec_pic_buffering_minus1", o.MaxDecPicBufferingMinus1)
	e.UE("vps_max_num_reorder_pics", o.MaxNumReorderPics)
	e.UE("vps_max_latency_increase_plus1", o.MaxLatencyIncreasePlus1)
	e.U("vps_max_layer_id", 0, 6)
	e.UE("vps_num_layer_sets_minus1", 0)
	e.Flag("vps_timing_info_present_flag", false)
	e.Flag("vps_extension_flag", false)
	return e.Finish(NalHeader(32, 1), true, 0).NAL
}
