// Package h265 holds independent serializers of the ISO/IEC 23008-2 SPS
// (7.3.2.2 + 7.3.3 profile_tier_level, 7.3.4 scaling_list_data, 7.3.7
// st_ref_pic_set, E.2 VUI/HRD, range/multilayer/3D/SCC extensions), PPS
// (7.3.2.3 + extensions incl. F.7.3.2.3.4/5 and I.7.3.2.3.7) and slice segment
// header (7.3.6.1-7.3.6.3) syntax, written from the syntax tables of the
// standard on top of ref/bitw and the recording emitter of ref/h264. It never
// imports mp4ff.
package h265

import (
	"verifharness/ref/h264"
)

type (
	// Enc, Coded, Elem, Rng are shared with ref/h264.
	Enc   = h264.Enc
	Coded = h264.Coded
	Elem  = h264.Elem
	Rng   = h264.Rng
)

var (
	idx    = h264.Idx
	idx2   = h264.Idx2
	chance = h264.Chance
	rng    = h264.Range
	pick   = h264.Pick
)

// CeilLog2 returns Ceil(Log2(x)), x >= 1.
func CeilLog2(x uint64) int { return h264.CeilLog2(x) }

// NalHeader builds the two-byte nal_unit_header( ) with nuh_layer_id 0.
func NalHeader(nalType, temporalIDPlus1 uint) []byte {
	return []byte{byte(nalType&63) << 1, byte(temporalIDPlus1 & 7)}
}

// PTLSub is one sub-layer entry of profile_tier_level( ).
type PTLSub struct {
	ProfilePresent, LevelPresent bool
	ProfileSpace                 uint8
	Tier                         bool
	ProfileIdc                   uint8
	Compat                       uint32 // sub_layer_profile_compatibility_flag[0] is the most significant bit
	Constraint                   uint64 // 48 bits: progressive, interlaced, non_packed, frame_only, 43 bits, 1 bit
	LevelIdc                     uint8
}

// PTL is profile_tier_level( 1, maxNumSubLayersMinus1 ) (7.3.3).
type PTL struct {
	ProfileSpace uint8
	Tier         bool
	ProfileIdc   uint8
	Compat       uint32 // general_profile_compatibility_flag[0] is the most significant bit
	Constraint   uint64 // 48 bits following the compatibility flags
	LevelIdc     uint8
	Sub          []PTLSub // maxNumSubLayersMinus1 entries
}

func emitPTL(e *Enc, p *PTL, maxSubLayersMinus1 int) {
	e.U("general_profile_space", uint64(p.ProfileSpace), 2)
	e.Flag("general_tier_flag", p.Tier)
	e.U("general_profile_idc", uint64(p.ProfileIdc), 5)
	e.U("general_profile_compatibility_flags", uint64(p.Compat), 32)
	e.Derived("general_progressive_source_flag", int64(p.Constraint>>47&1))
	e.Derived("general_interlaced_source_flag", int64(p.Constraint>>46&1))
	e.Derived("general_non_packed_constraint_flag", int64(p.Constraint>>45&1))
	e.Derived("general_frame_only_constraint_flag", int64(p.Constraint>>44&1))
	e.U("general_constraint_indicator_flags", p.Constraint&(1<<48-1), 48)
	e.U("general_level_idc", uint64(p.LevelIdc), 8)
	for i := 0; i < maxSubLayersMinus1; i++ {
		e.Flag(idx("sub_layer_profile_present_flag", i), p.Sub[i].ProfilePresent)
		e.Flag(idx("sub_layer_level_present_flag", i), p.Sub[i].LevelPresent)
	}
	if maxSubLayersMinus1 > 0 {
		e.Branch("ptl/sub-layers")
		for i := maxSubLayersMinus1; i < 8; i++ {
			e.U(idx("reserved_zero_2bits", i), 0, 2)
		}
	}
	for i := 0; i < maxSubLayersMinus1; i++ {
		s := p.Sub[i]
		if s.ProfilePresent {
			e.Branch("ptl/sub-layer-profile")
			e.U(idx("sub_layer_profile_space", i), uint64(s.ProfileSpace), 2)
			e.Flag(idx("sub_layer_tier_flag", i), s.Tier)
			e.U(idx("sub_layer_profile_idc", i), uint64(s.ProfileIdc), 5)
			e.U(idx("sub_layer_profile_compatibility_flags", i), uint64(s.Compat), 32)
			e.Derived(idx("sub_layer_progressive_source_flag", i), int64(s.Constraint>>47&1))
			e.Derived(idx("sub_layer_interlaced_source_flag", i), int64(s.Constraint>>46&1))
			e.Derived(idx("sub_layer_non_packed_constraint_flag", i), int64(s.Constraint>>45&1))
			e.Derived(idx("sub_layer_frame_only_constraint_flag", i), int64(s.Constraint>>44&1))
			e.U(idx("sub_layer_constraint_indicator_flags", i), s.Constraint&(1<<48-1), 48)
		}
		if s.LevelPresent {
			e.Branch("ptl/sub-layer-level")
			e.U(idx("sub_layer_level_idc", i), uint64(s.LevelIdc), 8)
		}
	}
}

func genConstraint(r Rng) uint64 {
	switch r.Intn(4) {
	case 0:
		return 0
	case 1:
		return uint64(0x9) << 44 // progressive + frame_only, the usual "B0" / "90"
	case 2:
		return uint64(r.Intn(256)) << 40 // only the first byte set: trailing zero bytes
	}
	return r.Uint64() & (1<<48 - 1)
}

func genPTL(r Rng, maxSubLayersMinus1 int) PTL {
	p := PTL{ProfileSpace: uint8(pick(r, 0, 0, 0, 1, 2, 3)), Tier: chance(r, 1, 3), ProfileIdc: uint8(pick(r, 1, 2, 3, 4, 9, r.Intn(32)))}
	switch r.Intn(3) {
	case 0:
		p.Compat = 1 << (31 - uint(p.ProfileIdc&31))
	case 1:
		p.Compat = uint32(r.Uint64())
	default:
		p.Compat = 0x60000000
	}
	p.Constraint = genConstraint(r)
	p.LevelIdc = uint8(pick(r, 30, 60, 63, 90, 93, 120, 123, 150, 153, 156, 180, 183, 186, r.Intn(256)))
	for i := 0; i < maxSubLayersMinus1; i++ {
		s := PTLSub{ProfilePresent: chance(r, 1, 2), LevelPresent: chance(r, 1, 2), ProfileSpace: uint8(r.Intn(4)), Tier: chance(r, 1, 2),
			ProfileIdc: uint8(r.Intn(32)), Compat: uint32(r.Uint64()), Constraint: genConstraint(r), LevelIdc: uint8(r.Intn(256))}
		p.Sub = append(p.Sub, s)
	}
	return p
}

// ---------------------------------------------------------------------------
// st_ref_pic_set( stRpsIdx ) (7.3.7)

// STRPS is the value record of one st_ref_pic_set( ).
type STRPS struct {
	InterPred         bool
	DeltaIdxMinus1    uint64 // coded only in the slice header (stRpsIdx == num_short_term_ref_pic_sets)
	DeltaRpsSign      bool
	AbsDeltaRpsMinus1 uint64
	UsedByCurrPic     []bool // NumDeltaPocs[RefRpsIdx]+1 entries
	UseDelta          []bool // meaningful where UsedByCurrPic is false
	// explicit form
	DeltaPocS0Minus1 []uint64
	UsedS0           []bool
	DeltaPocS1Minus1 []uint64
	UsedS1           []bool
}

// RPS holds the variables derived by 7.4.8 (7-59..7-71) for one set.
type RPS struct {
	DeltaPocS0, DeltaPocS1 []int64
	UsedS0, UsedS1         []bool
}

// NumDeltaPocs = NumNegativePics + NumPositivePics.
func (d *RPS) NumDeltaPocs() int { return len(d.DeltaPocS0) + len(d.DeltaPocS1) }

// NumUsed counts the pictures marked used_by_curr_pic.
func (d *RPS) NumUsed() int {
	n := 0
	for _, u := range d.UsedS0 {
		if u {
			n++
		}
	}
	for _, u := range d.UsedS1 {
		if u {
			n++
		}
	}
	return n
}

// RefIdx gives RefRpsIdx of an inter-predicted set at position stRpsIdx.
func (s *STRPS) RefIdx(stRpsIdx int, inSlice bool) int {
	if inSlice {
		return stRpsIdx - int(s.DeltaIdxMinus1+1)
	}
	return stRpsIdx - 1
}

// Derive computes the derived variables of the set at stRpsIdx given the
// earlier sets (7-61, 7-62 for inter prediction; 7-63..7-68 otherwise).
func (s *STRPS) Derive(stRpsIdx int, inSlice bool, prev []RPS) RPS {
	var d RPS
	if !s.InterPred {
		acc := int64(0)
		for i, m := range s.DeltaPocS0Minus1 {
			acc -= int64(m) + 1
			d.DeltaPocS0 = append(d.DeltaPocS0, acc)
			d.UsedS0 = append(d.UsedS0, s.UsedS0[i])
		}
		acc = 0
		for i, m := range s.DeltaPocS1Minus1 {
			acc += int64(m) + 1
			d.DeltaPocS1 = append(d.DeltaPocS1, acc)
			d.UsedS1 = append(d.UsedS1, s.UsedS1[i])
		}
		return d
	}
	ref := prev[s.RefIdx(stRpsIdx, inSlice)]
	deltaRps := int64(s.AbsDeltaRpsMinus1 + 1)
	if s.DeltaRpsSign {
		deltaRps = -deltaRps
	}
	nNeg, nPos := len(ref.DeltaPocS0), len(ref.DeltaPocS1)
	useDelta := func(j int) bool { return s.UsedByCurrPic[j] || s.UseDelta[j] }
	for j := nPos - 1; j >= 0; j-- {
		dPoc := ref.DeltaPocS1[j] + deltaRps
		if dPoc < 0 && useDelta(nNeg+j) {
			d.DeltaPocS0 = append(d.DeltaPocS0, dPoc)
			d.UsedS0 = append(d.UsedS0, s.UsedByCurrPic[nNeg+j])
		}
	}
	if deltaRps < 0 && useDelta(nNeg+nPos) {
		d.DeltaPocS0 = append(d.DeltaPocS0, deltaRps)
		d.UsedS0 = append(d.UsedS0, s.UsedByCurrPic[nNeg+nPos])
	}
	for j := 0; j < nNeg; j++ {
		dPoc := ref.DeltaPocS0[j] + deltaRps
		if dPoc < 0 && useDelta(j) {
			d.DeltaPocS0 = append(d.DeltaPocS0, dPoc)
			d.UsedS0 = append(d.UsedS0, s.UsedByCurrPic[j])
		}
	}
	for j := nNeg - 1; j >= 0; j-- {
		dPoc := ref.DeltaPocS0[j] + deltaRps
		if dPoc > 0 && useDelta(j) {
			d.DeltaPocS1 = append(d.DeltaPocS1, dPoc)
			d.UsedS1 = append(d.UsedS1, s.UsedByCurrPic[j])
		}
	}
	if deltaRps > 0 && useDelta(nNeg+nPos) {
		d.DeltaPocS1 = append(d.DeltaPocS1, deltaRps)
		d.UsedS1 = append(d.UsedS1, s.UsedByCurrPic[nNeg+nPos])
	}
	for j := 0; j < nPos; j++ {
		dPoc := ref.DeltaPocS1[j] + deltaRps
		if dPoc > 0 && useDelta(nNeg+j) {
			d.DeltaPocS1 = append(d.DeltaPocS1, dPoc)
			d.UsedS1 = append(d.UsedS1, s.UsedByCurrPic[nNeg+j])
		}
	}
	return d
}

// emitSTRPS writes st_ref_pic_set( stRpsIdx ). prefix distinguishes the sets
// ("st[3]" in the SPS, "st" in a slice header).
func emitSTRPS(e *Enc, prefix string, s *STRPS, stRpsIdx int, inSlice bool, prev []RPS) RPS {
	if stRpsIdx != 0 {
		e.Flag(prefix+".inter_ref_pic_set_prediction_flag", s.InterPred)
	}
	if s.InterPred && stRpsIdx != 0 {
		e.Branch("st_rps/inter-predicted")
		if inSlice {
			e.UE(prefix+".delta_idx_minus1", s.DeltaIdxMinus1)
		}
		e.Flag(prefix+".delta_rps_sign", s.DeltaRpsSign)
		e.UE(prefix+".abs_delta_rps_minus1", s.AbsDeltaRpsMinus1)
		ref := prev[s.RefIdx(stRpsIdx, inSlice)]
		for j := 0; j <= ref.NumDeltaPocs(); j++ {
			e.Flag(idx(prefix+".used_by_curr_pic_flag", j), s.UsedByCurrPic[j])
			if !s.UsedByCurrPic[j] {
				e.Flag(idx(prefix+".use_delta_flag", j), s.UseDelta[j])
			}
		}
	} else {
		e.Branch("st_rps/explicit")
		e.UE(prefix+".num_negative_pics", uint64(len(s.DeltaPocS0Minus1)))
		e.UE(prefix+".num_positive_pics", uint64(len(s.DeltaPocS1Minus1)))
		for i, m := range s.DeltaPocS0Minus1 {
			e.UE(idx(prefix+".delta_poc_s0_minus1", i), m)
			e.Flag(idx(prefix+".used_by_curr_pic_s0_flag", i), s.UsedS0[i])
		}
		for i, m := range s.DeltaPocS1Minus1 {
			e.UE(idx(prefix+".delta_poc_s1_minus1", i), m)
			e.Flag(idx(prefix+".used_by_curr_pic_s1_flag", i), s.UsedS1[i])
		}
	}
	d := s.Derive(stRpsIdx, inSlice, prev)
	e.Derived(prefix+".NumDeltaPocs", int64(d.NumDeltaPocs()))
	return d
}

// GenSTRPS draws a valid st_ref_pic_set for position stRpsIdx (prev = derived
// earlier sets). maxPics bounds NumDeltaPocs (sps_max_dec_pic_buffering).
func GenSTRPS(r Rng, stRpsIdx int, inSlice bool, prev []RPS, maxPics int) *STRPS {
	s := &STRPS{}
	if stRpsIdx > 0 && len(prev) > 0 && chance(r, 2, 5) {
		s.InterPred = true
		if inSlice {
			s.DeltaIdxMinus1 = uint64(r.Intn(stRpsIdx))
			if chance(r, 1, 2) {
				s.DeltaIdxMinus1 = 0
			}
		}
		ref := prev[s.RefIdx(stRpsIdx, inSlice)]
		s.DeltaRpsSign = chance(r, 1, 2)
		s.AbsDeltaRpsMinus1 = uint64(pick(r, 0, 1, 3, r.Intn(16), r.Intn(1<<15)))
		deltaRps := int64(s.AbsDeltaRpsMinus1 + 1)
		if s.DeltaRpsSign {
			deltaRps = -deltaRps
		}
		n := ref.NumDeltaPocs()
		s.UsedByCurrPic = make([]bool, n+1)
		s.UseDelta = make([]bool, n+1)
		all := append(append([]int64{}, ref.DeltaPocS0...), ref.DeltaPocS1...)
		kept := 0
		for j := 0; j <= n; j++ {
			s.UsedByCurrPic[j] = chance(r, 1, 2)
			s.UseDelta[j] = chance(r, 1, 2)
			zero := j < n && all[j]+deltaRps == 0
			if zero || kept >= maxPics {
				// an entry that would coincide with the current picture is not kept
				s.UsedByCurrPic[j], s.UseDelta[j] = false, false
			}
			if s.UsedByCurrPic[j] || s.UseDelta[j] {
				kept++
			}
		}
		return s
	}
	tot := pick(r, 0, 1, 2, 3, 4, r.Intn(maxPics+1))
	if tot > maxPics {
		tot = maxPics
	}
	nNeg := r.Intn(tot + 1)
	if chance(r, 1, 2) {
		nNeg = tot
	}
	dp := func() uint64 { return uint64(pick(r, 0, 0, 1, 3, 7, r.Intn(64), r.Intn(1<<15))) }
	for i := 0; i < nNeg; i++ {
		s.DeltaPocS0Minus1 = append(s.DeltaPocS0Minus1, dp())
		s.UsedS0 = append(s.UsedS0, chance(r, 2, 3))
	}
	for i := 0; i < tot-nNeg; i++ {
		s.DeltaPocS1Minus1 = append(s.DeltaPocS1Minus1, dp())
		s.UsedS1 = append(s.UsedS1, chance(r, 2, 3))
	}
	return s
}
