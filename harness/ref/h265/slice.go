package h265

// LTEntry is one iteration of the long-term loop of the slice segment header:
// the first num_long_term_sps entries use LtIdxSps, the others PocLsbLt/Used.
type LTEntry struct {
	LtIdxSps           uint64
	PocLsbLt           uint64
	UsedByCurrPicLt    bool
	DeltaPocMsbPresent bool
	DeltaPocMsbCycleLt uint64
}

// PredWeight is one reference index of pred_weight_table( ) (7.3.6.3).
type PredWeight struct {
	LumaFlag, ChromaFlag bool
	DeltaLumaWeight      int64
	LumaOffset           int64
	DeltaChromaWeight    [2]int64
	DeltaChromaOffset    [2]int64
}

// PWT is pred_weight_table( ).
type PWT struct {
	LumaLog2WeightDenom        uint64
	DeltaChromaLog2WeightDenom int64
	L0, L1                     []PredWeight
}

// Slice is the value record of slice_segment_header( ) (7.3.6.1).
type Slice struct {
	NalUnitType              uint // 0..9, 16..21
	TemporalIDPlus1          uint
	FirstSliceSegmentInPic   bool
	NoOutputOfPriorPics      bool
	PPSID                    uint64
	DependentSliceSegment    bool
	SegmentAddress           uint64
	ReservedFlags            []bool // num_extra_slice_header_bits entries
	SliceType                uint64 // 0 B, 1 P, 2 I
	PicOutput                bool
	ColourPlaneId            uint64
	PocLsb                   uint64
	ShortTermRefPicSetSps    bool
	STRPS                    *STRPS // when !ShortTermRefPicSetSps
	ShortTermRefPicSetIdx    uint64
	NumLongTermSps           uint64
	LT                       []LTEntry
	TemporalMvpEnabled       bool
	SaoLuma, SaoChroma       bool
	NumRefIdxActiveOverride  bool
	NumRefIdxL0ActiveMinus1  uint64
	NumRefIdxL1ActiveMinus1  uint64
	RplmL0, RplmL1           []uint64 // nil: ref_pic_list_modification_flag_lX 0
	MvdL1Zero, CabacInit     bool
	CollocatedFromL0         bool
	CollocatedRefIdx         uint64
	PWT                      *PWT
	FiveMinusMaxNumMergeCand uint64
	UseIntegerMv             bool
	QpDelta                  int64
	CbQpOffset, CrQpOffset   int64
	ActQpOffset              [3]int64
	CuChromaQpOffsetEnabled  bool
	DeblockingOverride       bool
	DeblockingDisabled       bool
	BetaOffsetDiv2           int64
	TcOffsetDiv2             int64
	LoopFilterAcrossSlices   bool
	EntryPointOffsetMinus1   []uint64
	OffsetLenMinus1          uint64
	ExtensionData            []byte
	Data                     []byte
}

// IsIRAP: nal_unit_type in BLA_W_LP..RSV_IRAP_VCL23.
func (s *Slice) IsIRAP() bool { return s.NalUnitType >= 16 && s.NalUnitType <= 23 }

// IsIDR: IDR_W_RADL or IDR_N_LP.
func (s *Slice) IsIDR() bool { return s.NalUnitType == 19 || s.NalUnitType == 20 }

// SliceInfo reports derived facts of an encoded header the monitors use to
// name the syntactic condition of a finding.
type SliceInfo struct {
	NumPicTotalCurr         int
	CurrRPSInterPredicted   bool // the active short-term RPS was coded with inter RPS prediction
	RPSIdxInferred          bool // short_term_ref_pic_set_sps_flag = 1 and num_short_term_ref_pic_sets = 1 (idx not coded)
	RPSIdxInferredUsed      int  // pictures used by curr in that inferred set
	LtIdxInferredUsed       int  // entries with inferred lt_idx_sps (num_long_term_ref_pics_sps = 1) that are used by curr
	RPLMSyntaxPresent       bool // ref_pic_lists_modification( ) present
	ListsModCondition       bool // lists_modification_present_flag && P/B (presence decided by NumPicTotalCurr > 1)
	DeblockDisabledInferred bool // slice_deblocking_filter_disabled_flag inferred 1 from the PPS and it decides the presence of slice_loop_filter_across_slices_enabled_flag
}

// ActiveRefs returns the effective num_ref_idx_lX_active_minus1.
func (s *Slice) ActiveRefs(pps *PPS) (uint64, uint64) {
	l0, l1 := pps.NumRefIdxL0DefaultActiveMinus1, pps.NumRefIdxL1DefaultActiveMinus1
	if s.NumRefIdxActiveOverride {
		l0 = s.NumRefIdxL0ActiveMinus1
		if s.SliceType == 0 {
			l1 = s.NumRefIdxL1ActiveMinus1
		}
	}
	return l0, l1
}

// numPicTotalCurr per (7-55).
func (s *Slice) numPicTotalCurr(sps *SPS, pps *PPS) (int, RPS) {
	n := 0
	var cur RPS
	if !s.IsIDR() {
		spsRPS := sps.DerivedRPS()
		if s.ShortTermRefPicSetSps {
			if len(spsRPS) > 0 {
				i := 0
				if len(spsRPS) > 1 {
					i = int(s.ShortTermRefPicSetIdx)
				}
				cur = spsRPS[i]
			}
		} else {
			cur = s.STRPS.Derive(len(sps.STRPS), true, spsRPS)
		}
		n += cur.NumUsed()
		if sps.LongTermRefPicsPresent {
			for i, lt := range s.LT {
				used := lt.UsedByCurrPicLt
				if uint64(i) < s.NumLongTermSps {
					k := 0
					if len(sps.LtRefPicPocLsbSps) > 1 {
						k = int(lt.LtIdxSps)
					}
					used = sps.UsedByCurrPicLtSps[k]
				}
				if used {
					n++
				}
			}
		}
	}
	if pps.CurrPicRef() {
		n++
	}
	return n, cur
}

// Encode emits the slice segment NAL unit using the active SPS and PPS.
func (s *Slice) Encode(sps *SPS, pps *PPS) (*Coded, SliceInfo) {
	e := &Enc{}
	var info SliceInfo
	e.Branch(idx("slice/nal_unit_type", int(s.NalUnitType)))
	e.Flag("first_slice_segment_in_pic_flag", s.FirstSliceSegmentInPic)
	if s.IsIRAP() {
		e.Branch("slice/irap")
		e.Flag("no_output_of_prior_pics_flag", s.NoOutputOfPriorPics)
	}
	e.UE("slice_pic_parameter_set_id", s.PPSID)
	dependent := false
	if !s.FirstSliceSegmentInPic {
		if pps.DependentSliceSegmentsEnabled {
			e.Flag("dependent_slice_segment_flag", s.DependentSliceSegment)
			dependent = s.DependentSliceSegment
		}
		e.U("slice_segment_address", s.SegmentAddress, CeilLog2(sps.PicSizeInCtbsY()))
	}
	if dependent {
		e.Branch("slice/dependent-segment")
	}
	if !dependent {
		for i := 0; i < int(pps.NumExtraSliceHeaderBits); i++ {
			v := false
			if i < len(s.ReservedFlags) {
				v = s.ReservedFlags[i]
			}
			e.Flag(idx("slice_reserved_flag", i), v)
		}
		e.UE("slice_type", s.SliceType)
		e.Branch(idx("slice/slice_type", int(s.SliceType)))
		if pps.OutputFlagPresent {
			e.Flag("pic_output_flag", s.PicOutput)
		}
		if sps.SeparatePlanes() {
			e.Branch("slice/colour_plane_id")
			e.U("colour_plane_id", s.ColourPlaneId, 2)
		}
		temporalMvp := false
		if !s.IsIDR() {
			pocBits := int(sps.Log2MaxPocLsbMinus4 + 4)
			e.U("slice_pic_order_cnt_lsb", s.PocLsb, pocBits)
			e.Flag("short_term_ref_pic_set_sps_flag", s.ShortTermRefPicSetSps)
			if !s.ShortTermRefPicSetSps {
				e.Branch("slice/st_rps-in-header")
				emitSTRPS(e, "st", s.STRPS, len(sps.STRPS), true, sps.DerivedRPS())
				if s.STRPS.InterPred && len(sps.STRPS) > 0 {
					info.CurrRPSInterPredicted = true
				}
			} else if len(sps.STRPS) > 1 {
				e.Branch("slice/st_rps-by-idx")
				e.U("short_term_ref_pic_set_idx", s.ShortTermRefPicSetIdx, CeilLog2(uint64(len(sps.STRPS))))
				if sps.STRPS[s.ShortTermRefPicSetIdx].InterPred && s.ShortTermRefPicSetIdx > 0 {
					info.CurrRPSInterPredicted = true
				}
			} else {
				e.Branch("slice/st_rps-idx-inferred")
				info.RPSIdxInferred = true
				if d := sps.DerivedRPS(); len(d) == 1 {
					info.RPSIdxInferredUsed = d[0].NumUsed()
				}
			}
			if sps.LongTermRefPicsPresent {
				e.Branch("slice/long-term")
				nSps := len(sps.LtRefPicPocLsbSps)
				if nSps > 0 {
					e.UE("num_long_term_sps", s.NumLongTermSps)
				}
				nLtSps := uint64(0)
				if nSps > 0 {
					nLtSps = s.NumLongTermSps
				}
				e.UE("num_long_term_pics", uint64(len(s.LT))-nLtSps)
				for i, lt := range s.LT {
					if uint64(i) < nLtSps {
						if nSps > 1 {
							e.U(idx("lt_idx_sps", i), lt.LtIdxSps, CeilLog2(uint64(nSps)))
							e.Derived(idx("lt.PocLsbLt", i), int64(sps.LtRefPicPocLsbSps[lt.LtIdxSps]))
							e.Derived(idx("lt.UsedByCurrPicLt", i), b2i(sps.UsedByCurrPicLtSps[lt.LtIdxSps]))
						} else {
							e.Branch("slice/lt_idx_sps-inferred")
							if sps.UsedByCurrPicLtSps[0] {
								info.LtIdxInferredUsed++
							}
						}
					} else {
						e.U(idx("poc_lsb_lt", i), lt.PocLsbLt, pocBits)
						e.Flag(idx("used_by_curr_pic_lt_flag", i), lt.UsedByCurrPicLt)
					}
					e.Flag(idx("delta_poc_msb_present_flag", i), lt.DeltaPocMsbPresent)
					if lt.DeltaPocMsbPresent {
						e.UE(idx("delta_poc_msb_cycle_lt", i), lt.DeltaPocMsbCycleLt)
					} else {
						// 7.4.7.1: inferred to be equal to 0 when not present
						e.Derived(idx("delta_poc_msb_cycle_lt", i), 0)
					}
				}
				e.Derived("len(lt)", int64(len(s.LT)))
			}
			if sps.TemporalMvp {
				e.Flag("slice_temporal_mvp_enabled_flag", s.TemporalMvpEnabled)
				temporalMvp = s.TemporalMvpEnabled
			}
		} else {
			e.Branch("slice/idr")
		}
		saoL, saoC := false, false
		if sps.Sao {
			e.Flag("slice_sao_luma_flag", s.SaoLuma)
			saoL = s.SaoLuma
			if sps.ChromaArrayType() != 0 {
				e.Flag("slice_sao_chroma_flag", s.SaoChroma)
				saoC = s.SaoChroma
			}
		}
		nTot, _ := s.numPicTotalCurr(sps, pps)
		info.NumPicTotalCurr = nTot
		if s.SliceType == 0 || s.SliceType == 1 {
			isB := s.SliceType == 0
			e.Flag("num_ref_idx_active_override_flag", s.NumRefIdxActiveOverride)
			if s.NumRefIdxActiveOverride {
				e.Branch("slice/num_ref_idx-override")
				e.UE("num_ref_idx_l0_active_minus1", s.NumRefIdxL0ActiveMinus1)
				if isB {
					e.UE("num_ref_idx_l1_active_minus1", s.NumRefIdxL1ActiveMinus1)
				}
			}
			l0, l1 := s.ActiveRefs(pps)
			info.ListsModCondition = pps.ListsModificationPresent
			if pps.ListsModificationPresent && nTot > 1 {
				e.Branch("slice/ref_pic_lists_modification")
				info.RPLMSyntaxPresent = true
				n := CeilLog2(uint64(nTot))
				e.Flag("ref_pic_list_modification_flag_l0", s.RplmL0 != nil)
				if s.RplmL0 != nil {
					for i := 0; i <= int(l0); i++ {
						e.U(idx("list_entry_l0", i), s.RplmL0[i], n)
					}
					e.Derived("len(list_entry_l0)", int64(l0)+1)
				}
				if isB {
					e.Flag("ref_pic_list_modification_flag_l1", s.RplmL1 != nil)
					if s.RplmL1 != nil {
						for i := 0; i <= int(l1); i++ {
							e.U(idx("list_entry_l1", i), s.RplmL1[i], n)
						}
						e.Derived("len(list_entry_l1)", int64(l1)+1)
					}
				}
			}
			if isB {
				e.Flag("mvd_l1_zero_flag", s.MvdL1Zero)
			}
			if pps.CabacInitPresent {
				e.Flag("cabac_init_flag", s.CabacInit)
			}
			if temporalMvp {
				e.Branch("slice/temporal-mvp")
				fromL0 := true
				if isB {
					e.Flag("collocated_from_l0_flag", s.CollocatedFromL0)
					fromL0 = s.CollocatedFromL0
				}
				if (fromL0 && l0 > 0) || (!fromL0 && l1 > 0) {
					e.UE("collocated_ref_idx", s.CollocatedRefIdx)
				}
			}
			if (pps.WeightedPred && !isB) || (pps.WeightedBipred && isB) {
				e.Branch("slice/pred_weight_table")
				w := s.PWT
				cat := sps.ChromaArrayType()
				e.UE("luma_log2_weight_denom", w.LumaLog2WeightDenom)
				if cat != 0 {
					e.SE("delta_chroma_log2_weight_denom", w.DeltaChromaLog2WeightDenom)
				}
				table := func(x string, n uint64, ents []PredWeight) {
					for i := 0; i <= int(n); i++ {
						e.Flag(idx("luma_weight_"+x+"_flag", i), ents[i].LumaFlag)
					}
					if cat != 0 {
						for i := 0; i <= int(n); i++ {
							e.Flag(idx("chroma_weight_"+x+"_flag", i), ents[i].ChromaFlag)
						}
					}
					for i := 0; i <= int(n); i++ {
						if ents[i].LumaFlag {
							e.SE(idx("delta_luma_weight_"+x, i), ents[i].DeltaLumaWeight)
							e.SE(idx("luma_offset_"+x, i), ents[i].LumaOffset)
						}
						if cat != 0 && ents[i].ChromaFlag {
							for j := 0; j < 2; j++ {
								e.SE(idx2("delta_chroma_weight_"+x, i, j), ents[i].DeltaChromaWeight[j])
								e.SE(idx2("delta_chroma_offset_"+x, i, j), ents[i].DeltaChromaOffset[j])
							}
						}
					}
					e.Derived("len(weights_"+x+")", int64(n)+1)
				}
				table("l0", l0, w.L0)
				if isB {
					e.Branch("slice/pred_weight_table-l1")
					table("l1", l1, w.L1)
				}
			}
			e.UE("five_minus_max_num_merge_cand", s.FiveMinusMaxNumMergeCand)
			if sps.ExtensionPresent && sps.Scc != nil && sps.Scc.MotionVectorResolutionControlIdc == 2 {
				e.Branch("slice/use_integer_mv_flag")
				e.Flag("use_integer_mv_flag", s.UseIntegerMv)
			}
		}
		e.SE("slice_qp_delta", s.QpDelta)
		if pps.SliceChromaQpOffsetsPresent {
			e.SE("slice_cb_qp_offset", s.CbQpOffset)
			e.SE("slice_cr_qp_offset", s.CrQpOffset)
		}
		if pps.ExtensionPresent && pps.Scc != nil && pps.Scc.ResidualAdaptiveColourTransformEnabled && pps.Scc.SliceActQpOffsetsPresent {
			e.Branch("slice/act-qp-offsets")
			e.SE("slice_act_y_qp_offset", s.ActQpOffset[0])
			e.SE("slice_act_cb_qp_offset", s.ActQpOffset[1])
			e.SE("slice_act_cr_qp_offset", s.ActQpOffset[2])
		}
		if pps.ExtensionPresent && pps.Range != nil && pps.Range.ChromaQpOffsetListEnabled {
			e.Flag("cu_chroma_qp_offset_enabled_flag", s.CuChromaQpOffsetEnabled)
		}
		override := false
		if pps.DeblockingFilterControlPresent && pps.DeblockingFilterOverrideEnabled {
			e.Flag("deblocking_filter_override_flag", s.DeblockingOverride)
			override = s.DeblockingOverride
		}
		// slice_deblocking_filter_disabled_flag is inferred equal to pps_deblocking_filter_disabled_flag when absent
		disabled := pps.DeblockingFilterControlPresent && pps.DeblockingFilterDisabled
		if override {
			e.Branch("slice/deblocking-override")
			e.Flag("slice_deblocking_filter_disabled_flag", s.DeblockingDisabled)
			disabled = s.DeblockingDisabled
			if !s.DeblockingDisabled {
				e.SE("slice_beta_offset_div2", s.BetaOffsetDiv2)
				e.SE("slice_tc_offset_div2", s.TcOffsetDiv2)
			}
		}
		if pps.LoopFilterAcrossSlicesEnabled && (saoL || saoC || !disabled) {
			e.Flag("slice_loop_filter_across_slices_enabled_flag", s.LoopFilterAcrossSlices)
		}
		if pps.LoopFilterAcrossSlicesEnabled && !saoL && !saoC && disabled && !override {
			info.DeblockDisabledInferred = true
			e.Branch("slice/deblocking-disabled-inferred-from-pps")
		}
	}
	if pps.TilesEnabled || pps.EntropyCodingSyncEnabled {
		e.Branch("slice/entry-points")
		e.UE("num_entry_point_offsets", uint64(len(s.EntryPointOffsetMinus1)))
		if len(s.EntryPointOffsetMinus1) > 0 {
			e.UE("offset_len_minus1", s.OffsetLenMinus1)
			for i, v := range s.EntryPointOffsetMinus1 {
				e.U(idx("entry_point_offset_minus1", i), v, int(s.OffsetLenMinus1)+1)
			}
		}
	}
	if pps.SliceSegmentHeaderExtensionPresent {
		e.Branch("slice/header-extension")
		e.UE("slice_segment_header_extension_length", uint64(len(s.ExtensionData)))
		for i, v := range s.ExtensionData {
			e.U(idx("slice_segment_header_extension_data_byte", i), uint64(v), 8)
		}
	}
	// byte_alignment( )
	e.W.Put(1, 1)
	e.W.AlignZero()
	hdrBits := e.W.NBits()
	e.W.PutBytes(s.Data)
	cd := e.Finish(NalHeader(s.NalUnitType, s.TemporalIDPlus1), len(s.Data) > 0, hdrBits)
	return cd, info
}

func b2i(b bool) int64 {
	if b {
		return 1
	}
	return 0
}

// GenSlice draws a syntactically valid slice segment header record.
func GenSlice(r Rng, sps *SPS, pps *PPS) *Slice {
	b := func() bool { return chance(r, 1, 2) }
	s := &Slice{PPSID: pps.ID, TemporalIDPlus1: uint(rng(r, 1, int(sps.MaxSubLayersMinus1)+1))}
	s.NalUnitType = uint(pick(r, 0, 1, 1, 1, 2, 3, 4, 5, 6, 7, 8, 9, 16, 17, 18, 19, 19, 20, 21, 21))
	if s.IsIRAP() {
		s.TemporalIDPlus1 = 1
	}
	s.FirstSliceSegmentInPic = b()
	s.NoOutputOfPriorPics = b()
	s.DependentSliceSegment = chance(r, 1, 4)
	n := sps.PicSizeInCtbsY()
	if n > 1 {
		s.SegmentAddress = uint64(pick(r, 1, int(n-1), 1+r.Intn(int(n-1))))
	}
	for i := 0; i < int(pps.NumExtraSliceHeaderBits); i++ {
		s.ReservedFlags = append(s.ReservedFlags, b())
	}
	s.SliceType = uint64(r.Intn(3))
	if s.IsIRAP() && !pps.CurrPicRef() {
		s.SliceType = 2
	}
	s.PicOutput = b()
	s.ColourPlaneId = uint64(r.Intn(3))
	pocBits := sps.Log2MaxPocLsbMinus4 + 4
	bitsVal := func(nb uint64) uint64 {
		switch r.Intn(4) {
		case 0:
			return 0
		case 1:
			return 1<<nb - 1
		}
		return r.Uint64() & (1<<nb - 1)
	}
	s.PocLsb = bitsVal(pocBits)
	spsRPS := sps.DerivedRPS()
	s.ShortTermRefPicSetSps = len(sps.STRPS) > 0 && chance(r, 2, 3)
	if !s.ShortTermRefPicSetSps {
		maxPics := 1
		for _, o := range sps.Ordering {
			if int(o.MaxDecPicBufferingMinus1) > maxPics {
				maxPics = int(o.MaxDecPicBufferingMinus1)
			}
		}
		s.STRPS = GenSTRPS(r, len(sps.STRPS), true, spsRPS, maxPics)
	} else if len(sps.STRPS) > 1 {
		s.ShortTermRefPicSetIdx = uint64(r.Intn(len(sps.STRPS)))
	}
	if sps.LongTermRefPicsPresent {
		nSps := len(sps.LtRefPicPocLsbSps)
		if nSps > 0 {
			s.NumLongTermSps = uint64(pick(r, 0, 1, r.Intn(nSps+1)))
		}
		nPics := pick(r, 0, 1, 2, r.Intn(5))
		for i := 0; i < int(s.NumLongTermSps)+nPics; i++ {
			lt := LTEntry{PocLsbLt: bitsVal(pocBits), UsedByCurrPicLt: b(), DeltaPocMsbPresent: b(), DeltaPocMsbCycleLt: uint64(pick(r, 0, 1, r.Intn(1000)))}
			if nSps > 0 {
				lt.LtIdxSps = uint64(r.Intn(nSps))
			}
			s.LT = append(s.LT, lt)
		}
	}
	s.TemporalMvpEnabled = b()
	s.SaoLuma, s.SaoChroma = b(), b()
	s.NumRefIdxActiveOverride = b()
	s.NumRefIdxL0ActiveMinus1 = uint64(pick(r, 0, 1, 2, r.Intn(15)))
	s.NumRefIdxL1ActiveMinus1 = uint64(pick(r, 0, 1, 2, r.Intn(15)))
	l0, l1 := s.ActiveRefs(pps)
	nTot, _ := s.numPicTotalCurr(sps, pps)
	entries := func(n uint64) []uint64 {
		out := make([]uint64, n+1)
		for i := range out {
			if nTot > 0 {
				out[i] = uint64(r.Intn(nTot))
			}
		}
		return out
	}
	if b() {
		s.RplmL0 = entries(l0)
	}
	if b() {
		s.RplmL1 = entries(l1)
	}
	s.MvdL1Zero, s.CabacInit, s.CollocatedFromL0 = b(), b(), b()
	s.CollocatedRefIdx = uint64(r.Intn(int(l0) + 1))
	if s.SliceType == 0 && !s.CollocatedFromL0 {
		s.CollocatedRefIdx = uint64(r.Intn(int(l1) + 1))
	}
	w := &PWT{LumaLog2WeightDenom: uint64(r.Intn(8))}
	w.DeltaChromaLog2WeightDenom = int64(rng(r, -int(w.LumaLog2WeightDenom), 7-int(w.LumaLog2WeightDenom)))
	ents := func(n uint64) []PredWeight {
		out := make([]PredWeight, n+1)
		for i := range out {
			out[i] = PredWeight{LumaFlag: b(), ChromaFlag: b(), DeltaLumaWeight: int64(rng(r, -128, 127)), LumaOffset: int64(rng(r, -128, 127))}
			for j := 0; j < 2; j++ {
				out[i].DeltaChromaWeight[j] = int64(rng(r, -128, 127))
				out[i].DeltaChromaOffset[j] = int64(rng(r, -512, 511))
			}
		}
		return out
	}
	w.L0, w.L1 = ents(l0), ents(l1)
	s.PWT = w
	s.FiveMinusMaxNumMergeCand = uint64(r.Intn(5))
	s.UseIntegerMv = b()
	s.QpDelta = int64(rng(r, -51, 51))
	s.CbQpOffset, s.CrQpOffset = int64(rng(r, -12, 12)), int64(rng(r, -12, 12))
	s.ActQpOffset = [3]int64{int64(rng(r, -12, 12)), int64(rng(r, -12, 12)), int64(rng(r, -12, 12))}
	s.CuChromaQpOffsetEnabled = b()
	s.DeblockingOverride, s.DeblockingDisabled = b(), b()
	s.BetaOffsetDiv2, s.TcOffsetDiv2 = int64(rng(r, -6, 6)), int64(rng(r, -6, 6))
	s.LoopFilterAcrossSlices = b()
	if chance(r, 2, 3) {
		s.OffsetLenMinus1 = uint64(pick(r, 0, 7, 15, 31, r.Intn(32)))
		for i := pick(r, 1, 2, 1+r.Intn(12)); i > 0; i-- {
			s.EntryPointOffsetMinus1 = append(s.EntryPointOffsetMinus1, bitsVal(s.OffsetLenMinus1+1))
		}
	}
	if chance(r, 2, 3) {
		nb := pick(r, 1, 2, r.Intn(20), 256)
		if nb == 256 && !chance(r, 1, 8) {
			nb = 3
		}
		for i := 0; i < nb; i++ {
			s.ExtensionData = append(s.ExtensionData, byte(pick(r, 0, 0, 1, 3, r.Intn(256))))
		}
	}
	// slice segment data (never empty in a real stream)
	nd := pick(r, 1, 2, 3, 8, 1+r.Intn(40))
	mode := r.Intn(4)
	for i := 0; i < nd; i++ {
		switch mode {
		case 0:
			s.Data = append(s.Data, 0)
		case 1:
			s.Data = append(s.Data, byte(r.Intn(4)))
		default:
			s.Data = append(s.Data, byte(r.Intn(256)))
		}
	}
	return s
}
