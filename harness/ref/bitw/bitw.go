// Package bitw is an independent MSB-first bit writer/reader with Exp-Golomb
// codes and RBSP emulation prevention, written from ISO/IEC 14496-10 §7.2,
// §7.4.1 and §9.1. It never imports mp4ff.
package bitw

// W is an MSB-first bit writer.
type W struct {
	buf  []byte
	nbit int // number of bits written in total
}

// Put writes the n low bits of v, most significant first (n ≤ 64).
func (w *W) Put(v uint64, n int) {
	for i := n - 1; i >= 0; i-- {
		bit := byte((v >> uint(i)) & 1)
		if w.nbit%8 == 0 {
			w.buf = append(w.buf, 0)
		}
		if bit == 1 {
			w.buf[len(w.buf)-1] |= 1 << uint(7-w.nbit%8)
		}
		w.nbit++
	}
}

// Flag writes one bit.
func (w *W) Flag(b bool) {
	if b {
		w.Put(1, 1)
	} else {
		w.Put(0, 1)
	}
}

// UE writes an unsigned Exp-Golomb code (§9.1): codeNum v.
func (w *W) UE(v uint64) {
	x := v + 1
	n := 0
	for t := x; t > 1; t >>= 1 {
		n++
	}
	w.Put(0, n)
	w.Put(x, n+1)
}

// SE writes a signed Exp-Golomb code (§9.1.1): k>0 -> 2k-1, k<=0 -> -2k.
func (w *W) SE(v int64) {
	if v > 0 {
		w.UE(uint64(2*v - 1))
	} else {
		w.UE(uint64(-2 * v))
	}
}

// Bytes appends whole bytes (the writer need not be aligned).
func (w *W) PutBytes(b []byte) {
	for _, x := range b {
		w.Put(uint64(x), 8)
	}
}

// TrailingBits writes rbsp_trailing_bits: a 1 then zeros to alignment.
func (w *W) TrailingBits() {
	w.Put(1, 1)
	for w.nbit%8 != 0 {
		w.Put(0, 1)
	}
}

// AlignZero pads with zero bits to a byte boundary.
func (w *W) AlignZero() {
	for w.nbit%8 != 0 {
		w.Put(0, 1)
	}
}

// NBits returns the number of bits written.
func (w *W) NBits() int { return w.nbit }

// Bytes returns the bytes written so far (last byte zero padded).
func (w *W) Bytes() []byte { return append([]byte(nil), w.buf...) }

// Escape inserts emulation prevention bytes (§7.4.1): a 03 is inserted before
// any byte ≤ 03 that follows two zero bytes (and nowhere else).
func Escape(rbsp []byte) []byte {
	out := make([]byte, 0, len(rbsp)+len(rbsp)/2+1)
	zeros := 0
	for _, b := range rbsp {
		if zeros >= 2 && b <= 3 {
			out = append(out, 3)
			zeros = 0
		}
		out = append(out, b)
		if b == 0 {
			zeros++
		} else {
			zeros = 0
		}
	}
	return out
}

// EscapeFinal is Escape for a complete NAL unit payload (§7.4.1, last
// paragraph): when the data ends in a cabac_zero_word (0x0000) a final 03 is
// appended so that the NAL unit does not end in a zero byte. The 03 is only
// appended when the escaped stream ends in two zero bytes that no escape
// separates (only then is the appended byte an emulation prevention byte for a
// decoder); appended tells whether that happened.
func EscapeFinal(rbsp []byte) (out []byte, appended bool) {
	out = Escape(rbsp)
	zeros := 0
	for _, b := range rbsp {
		if zeros >= 2 && b <= 3 {
			zeros = 0
		}
		if b == 0 {
			zeros++
		} else {
			zeros = 0
		}
	}
	if zeros >= 2 {
		return append(out, 3), true
	}
	return out, false
}

// Unescape removes emulation prevention bytes: a 03 that follows two zero
// bytes is dropped.
func Unescape(ebsp []byte) []byte {
	out := make([]byte, 0, len(ebsp))
	zeros := 0
	for _, b := range ebsp {
		if zeros >= 2 && b == 3 {
			zeros = 0
			continue
		}
		out = append(out, b)
		if b == 0 {
			zeros++
		} else {
			zeros = 0
		}
	}
	return out
}

// EscapedPos maps a bit position in the RBSP to the number of bytes of the
// escaped stream consumed when the byte holding that bit has been read:
// it returns, for every RBSP byte index i, the index of that byte in the
// escaped stream.
func EscapedIndex(rbsp []byte) []int {
	idx := make([]int, len(rbsp))
	zeros := 0
	o := 0
	for i, b := range rbsp {
		if zeros >= 2 && b <= 3 {
			o++
			zeros = 0
		}
		idx[i] = o
		o++
		if b == 0 {
			zeros++
		} else {
			zeros = 0
		}
	}
	return idx
}

// R is an MSB-first bit reader over a byte slice (no escaping).
type R struct {
	b   []byte
	pos int // bit position
	Err bool
}

// NewR returns a reader.
func NewR(b []byte) *R { return &R{b: b} }

// Get reads n bits.
func (r *R) Get(n int) uint64 {
	var v uint64
	for i := 0; i < n; i++ {
		if r.pos >= 8*len(r.b) {
			r.Err = true
			return v << uint(n-i)
		}
		bit := (r.b[r.pos/8] >> uint(7-r.pos%8)) & 1
		v = v<<1 | uint64(bit)
		r.pos++
	}
	return v
}

// UE reads an unsigned Exp-Golomb code.
func (r *R) UE() uint64 {
	n := 0
	for r.Get(1) == 0 {
		if r.Err {
			return 0
		}
		n++
		if n > 63 {
			r.Err = true
			return 0
		}
	}
	return (uint64(1)<<uint(n) | r.Get(n)) - 1
}

// SE reads a signed Exp-Golomb code.
func (r *R) SE() int64 {
	k := r.UE()
	if k%2 == 1 {
		return int64((k + 1) / 2)
	}
	return -int64(k / 2)
}

// Pos returns the bit position.
func (r *R) Pos() int { return r.pos }

// Left returns the number of unread bits.
func (r *R) Left() int { return 8*len(r.b) - r.pos }
