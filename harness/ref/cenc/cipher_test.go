package cenc

import (
	"bytes"
	"crypto/aes"
	"crypto/cipher"
	"encoding/hex"
	"math/rand"
	"testing"
)

func hx(s string) []byte { b, _ := hex.DecodeString(s); return b }

func TestNISTVectors(t *testing.T) {
	key := hx("2b7e151628aed2a6abf7158809cf4f3c")
	pt := hx("6bc1bee22e409f96e93d7e117393172aae2d8a571e03ac9c9eb76fac45af8e51")
	out, n, err := CTR(key, hx("f0f1f2f3f4f5f6f7f8f9fafbfcfdfeff"), pt, nil)
	if err != nil || n != 2 || !bytes.Equal(out, hx("874d6191b620e3261bef6864990db6ce9806f66b7970fdff8617187bb9fffdff")) {
		t.Fatalf("CTR F.5.1: %x %d %v", out, n, err)
	}
	out, err = CBCS(key, hx("000102030405060708090a0b0c0d0e0f"), pt, nil, 0, 0, false)
	if err != nil || !bytes.Equal(out, hx("7649abac8119b246cee98e9b12e9197d5086cb9b507219ee95db113a917678b2")) {
		t.Fatalf("CBC F.2.1: %x %v", out, err)
	}
	back, _ := CBCS(key, hx("000102030405060708090a0b0c0d0e0f"), out, nil, 0, 0, true)
	if !bytes.Equal(back, pt) {
		t.Fatal("CBC decrypt")
	}
}

func TestAgainstStdlibModes(t *testing.T) {
	r := rand.New(rand.NewSource(1))
	for i := 0; i < 300; i++ {
		key := make([]byte, 16)
		iv := make([]byte, 16)
		r.Read(key)
		r.Read(iv)
		if i%3 == 0 {
			for j := 4; j < 16; j++ {
				iv[j] = 0xff
			}
		}
		data := make([]byte, r.Intn(700))
		r.Read(data)
		blk, _ := aes.NewCipher(key)
		want := make([]byte, len(data))
		cipher.NewCTR(blk, iv).XORKeyStream(want, data)
		got, _, _ := CTR(key, iv, data, nil)
		if !bytes.Equal(got, want) {
			t.Fatalf("CTR mismatch at %d", i)
		}
		whole := len(data) &^ 15
		want = append([]byte(nil), data...)
		cipher.NewCBCEncrypter(blk, iv).CryptBlocks(want[:whole], data[:whole])
		got, _ = CBCS(key, iv, data, nil, 0, 0, false)
		if !bytes.Equal(got, want) {
			t.Fatalf("CBC mismatch at %d", i)
		}
		// pattern 1:9 round trip and structure
		enc, _ := CBCS(key, iv, data, nil, 1, 9, false)
		dec, _ := CBCS(key, iv, enc, nil, 1, 9, true)
		if !bytes.Equal(dec, data) {
			t.Fatalf("pattern round trip %d", i)
		}
		for p := 0; p < len(data); p++ {
			inCrypt := (p/16)%10 == 0 && (p/16+1)*16 <= len(data)
			if !inCrypt && enc[p] != data[p] {
				t.Fatalf("byte %d outside the pattern changed", p)
			}
		}
	}
}

func TestAdd128(t *testing.T) {
	a := hx("00000000000000ffffffffffffffffff")
	if got := Add128(a, 1); !bytes.Equal(got, hx("00000000000001000000000000000000")) {
		t.Fatalf("%x", got)
	}
	if got := Add128(hx("ffffffffffffffffffffffffffffffff"), 2); !bytes.Equal(got, hx("00000000000000000000000000000001")) {
		t.Fatalf("%x", got)
	}
	hi, lo := Sub128(hx("00000000000001000000000000000005"), a)
	if hi != 0 || lo != 6 {
		t.Fatal(hi, lo)
	}
}
