package cenc

import (
	"encoding/binary"
	"fmt"
)

// rd is a bounds-checked big-endian cursor.
type rd struct {
	b   []byte
	pos int
	err error
}

func (r *rd) need(n int) bool {
	if r.err != nil {
		return false
	}
	if n < 0 || r.pos+n > len(r.b) {
		r.err = fmt.Errorf("need %d bytes at %d, have %d", n, r.pos, len(r.b)-r.pos)
		return false
	}
	return true
}
func (r *rd) u8() byte {
	if !r.need(1) {
		return 0
	}
	v := r.b[r.pos]
	r.pos++
	return v
}
func (r *rd) u16() uint16 {
	if !r.need(2) {
		return 0
	}
	v := binary.BigEndian.Uint16(r.b[r.pos:])
	r.pos += 2
	return v
}
func (r *rd) u32() uint32 {
	if !r.need(4) {
		return 0
	}
	v := binary.BigEndian.Uint32(r.b[r.pos:])
	r.pos += 4
	return v
}
func (r *rd) u64() uint64 {
	if !r.need(8) {
		return 0
	}
	v := binary.BigEndian.Uint64(r.b[r.pos:])
	r.pos += 8
	return v
}
func (r *rd) bytes(n int) []byte {
	if !r.need(n) {
		return nil
	}
	v := append([]byte(nil), r.b[r.pos:r.pos+n]...)
	r.pos += n
	return v
}
func (r *rd) left() int { return len(r.b) - r.pos }

// SubSample is one (clear, protected) pair of a senc entry.
type SubSample struct {
	Clear     uint16
	Protected uint32
}

// SencEntry is the auxiliary information of one sample as written.
type SencEntry struct {
	IV     []byte
	Sub    []SubSample
	HasSub bool
	Off    int // offset of this entry from the start of the payload handed to ParseSenc
	Len    int // bytes of this entry
}

// Senc is a parsed SampleEncryptionBox payload.
type Senc struct {
	Version  byte
	Flags    uint32
	Count    uint32
	Entries  []SencEntry
	FirstOff int // offset (from payload start) of the first per-sample entry
	// PIFF override fields (uuid form with flags&1)
	OverrideAlg    uint32
	OverrideIVSize byte
	OverrideKID    []byte
}

// ParseSenc parses the payload (bytes after the box header, or after the
// 16-byte usertype for the PIFF uuid form) of a senc box. ivSize is the
// Per_Sample_IV_Size that applies (tenc / seig). The entries must tile the
// payload exactly.
func ParseSenc(payload []byte, ivSize int, piff bool) (*Senc, error) {
	r := &rd{b: payload}
	vf := r.u32()
	s := &Senc{Version: byte(vf >> 24), Flags: vf & 0xffffff}
	if piff && s.Flags&1 != 0 {
		s.OverrideAlg = uint32(r.u8())<<16 | uint32(r.u16())
		s.OverrideIVSize = r.u8()
		s.OverrideKID = r.bytes(16)
		ivSize = int(s.OverrideIVSize)
	}
	s.Count = r.u32()
	if r.err != nil {
		return nil, r.err
	}
	s.FirstOff = r.pos
	if ivSize != 0 && ivSize != 8 && ivSize != 16 {
		return nil, fmt.Errorf("per-sample IV size %d", ivSize)
	}
	if uint64(s.Count) > uint64(len(payload)) && (ivSize > 0 || s.Flags&2 != 0) {
		return nil, fmt.Errorf("sample_count %d cannot fit in %d bytes", s.Count, len(payload))
	}
	for i := uint32(0); i < s.Count; i++ {
		e := SencEntry{Off: r.pos}
		if ivSize > 0 {
			e.IV = r.bytes(ivSize)
		}
		if s.Flags&2 != 0 {
			e.HasSub = true
			n := int(r.u16())
			for j := 0; j < n && r.err == nil; j++ {
				e.Sub = append(e.Sub, SubSample{Clear: r.u16(), Protected: r.u32()})
			}
		}
		if r.err != nil {
			return nil, fmt.Errorf("senc entry %d: %v", i, r.err)
		}
		e.Len = r.pos - e.Off
		s.Entries = append(s.Entries, e)
		if ivSize == 0 && s.Flags&2 == 0 && i > 1<<20 {
			return nil, fmt.Errorf("senc with %d empty entries", s.Count)
		}
	}
	if r.left() != 0 {
		return nil, fmt.Errorf("senc: %d bytes left after %d entries (IV size %d, flags %#x)", r.left(), s.Count, ivSize, s.Flags)
	}
	return s, nil
}

// Saiz is a parsed SampleAuxiliaryInformationSizesBox.
type Saiz struct {
	Version     byte
	Flags       uint32
	AuxType     string
	AuxParam    uint32
	DefaultSize byte
	Count       uint32
	Sizes       []byte
}

// Size returns the auxiliary information size of sample i (0 beyond Count).
func (s *Saiz) Size(i int) int {
	if i < 0 || uint32(i) >= s.Count {
		return 0
	}
	if s.DefaultSize != 0 {
		return int(s.DefaultSize)
	}
	return int(s.Sizes[i])
}

// ParseSaiz parses a saiz payload (after the box header).
func ParseSaiz(payload []byte) (*Saiz, error) {
	r := &rd{b: payload}
	vf := r.u32()
	s := &Saiz{Version: byte(vf >> 24), Flags: vf & 0xffffff}
	if s.Flags&1 != 0 {
		s.AuxType = string(r.bytes(4))
		s.AuxParam = r.u32()
	}
	s.DefaultSize = r.u8()
	s.Count = r.u32()
	if r.err != nil {
		return nil, r.err
	}
	if s.DefaultSize == 0 {
		if int64(s.Count) > int64(r.left()) {
			return nil, fmt.Errorf("saiz: sample_count %d but %d bytes left", s.Count, r.left())
		}
		s.Sizes = r.bytes(int(s.Count))
	}
	if r.err != nil {
		return nil, r.err
	}
	if r.left() != 0 {
		return nil, fmt.Errorf("saiz: %d stray bytes", r.left())
	}
	return s, nil
}

// Saio is a parsed SampleAuxiliaryInformationOffsetsBox.
type Saio struct {
	Version  byte
	Flags    uint32
	AuxType  string
	AuxParam uint32
	Offsets  []int64
}

// ParseSaio parses a saio payload.
func ParseSaio(payload []byte) (*Saio, error) {
	r := &rd{b: payload}
	vf := r.u32()
	s := &Saio{Version: byte(vf >> 24), Flags: vf & 0xffffff}
	if s.Flags&1 != 0 {
		s.AuxType = string(r.bytes(4))
		s.AuxParam = r.u32()
	}
	n := r.u32()
	if r.err != nil {
		return nil, r.err
	}
	if int64(n)*4 > int64(r.left()) {
		return nil, fmt.Errorf("saio: entry_count %d but %d bytes left", n, r.left())
	}
	for i := uint32(0); i < n; i++ {
		if s.Version == 0 {
			s.Offsets = append(s.Offsets, int64(r.u32()))
		} else {
			s.Offsets = append(s.Offsets, int64(r.u64()))
		}
	}
	if r.err != nil {
		return nil, r.err
	}
	if r.left() != 0 {
		return nil, fmt.Errorf("saio: %d stray bytes", r.left())
	}
	return s, nil
}

// Tenc is a parsed TrackEncryptionBox.
type Tenc struct {
	Version         byte
	Flags           uint32
	Reserved        byte
	CryptByteBlock  int
	SkipByteBlock   int
	IsProtected     byte
	PerSampleIVSize int
	KID             []byte
	ConstantIV      []byte
}

// ParseTenc parses a tenc payload (after the box header; for the PIFF uuid
// form after the usertype).
func ParseTenc(payload []byte) (*Tenc, error) {
	r := &rd{b: payload}
	vf := r.u32()
	t := &Tenc{Version: byte(vf >> 24), Flags: vf & 0xffffff}
	t.Reserved = r.u8()
	pat := r.u8()
	if t.Version > 0 {
		t.CryptByteBlock = int(pat >> 4)
		t.SkipByteBlock = int(pat & 15)
	} else if pat != 0 {
		t.Reserved |= pat // reserved in version 0; remembered for the content check
	}
	t.IsProtected = r.u8()
	t.PerSampleIVSize = int(r.u8())
	t.KID = r.bytes(16)
	if r.err == nil && t.IsProtected == 1 && t.PerSampleIVSize == 0 {
		n := int(r.u8())
		t.ConstantIV = r.bytes(n)
	}
	if r.err != nil {
		return nil, r.err
	}
	if r.left() != 0 {
		return nil, fmt.Errorf("tenc: %d stray bytes", r.left())
	}
	return t, nil
}

// Schm is a parsed SchemeTypeBox.
type Schm struct {
	Version       byte
	Flags         uint32
	SchemeType    string
	SchemeVersion uint32
	URI           string
}

// ParseSchm parses a schm payload.
func ParseSchm(payload []byte) (*Schm, error) {
	r := &rd{b: payload}
	vf := r.u32()
	s := &Schm{Version: byte(vf >> 24), Flags: vf & 0xffffff}
	s.SchemeType = string(r.bytes(4))
	s.SchemeVersion = r.u32()
	if r.err != nil {
		return nil, r.err
	}
	if s.Flags&1 != 0 {
		s.URI = string(r.bytes(r.left()))
	} else if r.left() != 0 {
		return nil, fmt.Errorf("schm: %d stray bytes", r.left())
	}
	return s, nil
}

// ParseFrma returns the data_format of a frma payload.
func ParseFrma(payload []byte) (string, error) {
	if len(payload) != 4 {
		return "", fmt.Errorf("frma payload of %d bytes", len(payload))
	}
	return string(payload), nil
}

// Pssh is a parsed ProtectionSystemSpecificHeaderBox.
type Pssh struct {
	Version  byte
	Flags    uint32
	SystemID []byte
	KIDs     [][]byte
	Data     []byte
}

// ParsePssh parses a pssh payload.
func ParsePssh(payload []byte) (*Pssh, error) {
	r := &rd{b: payload}
	vf := r.u32()
	p := &Pssh{Version: byte(vf >> 24), Flags: vf & 0xffffff}
	p.SystemID = r.bytes(16)
	if p.Version > 0 {
		n := r.u32()
		if int64(n)*16 > int64(r.left()) {
			return nil, fmt.Errorf("pssh: KID_count %d", n)
		}
		for i := uint32(0); i < n; i++ {
			p.KIDs = append(p.KIDs, r.bytes(16))
		}
	}
	n := r.u32()
	if r.err != nil {
		return nil, r.err
	}
	if int64(n) != int64(r.left()) {
		return nil, fmt.Errorf("pssh: DataSize %d but %d bytes left", n, r.left())
	}
	p.Data = r.bytes(int(n))
	return p, r.err
}
