// Package cenc is an independent reference model of ISO/IEC 23001-7 Common
// Encryption as far as the /verif monitors C06/C07 need it: the AES-CTR
// ('cenc') and AES-CBC pattern ('cbcs') sample ciphers written on top of the
// 16-byte AES *block* function only, and readers for the encoded bytes of
// senc/saiz/saio/tenc/schm/frma/pssh and tfhd/tfdt/trun/trex/mfhd that are
// needed to locate samples. It never imports mp4ff.
package cenc

import (
	"crypto/aes"
	"fmt"
)

// Range is a byte range [Off, Off+Len) inside a sample.
type Range struct{ Off, Len int }

// IV16 returns the 16-byte counter/IV for an 8- or 16-byte IV (an 8-byte IV
// occupies the most significant bytes, the rest is zero: 23001-7 §9.1/9.3).
func IV16(iv []byte) ([]byte, error) {
	switch len(iv) {
	case 16:
		return append([]byte(nil), iv...), nil
	case 8:
		out := make([]byte, 16)
		copy(out, iv)
		return out, nil
	}
	return nil, fmt.Errorf("IV of %d bytes", len(iv))
}

// Add128 returns iv + n, both read as 128-bit big-endian unsigned numbers,
// modulo 2^128.
func Add128(iv []byte, n uint64) []byte {
	out := append([]byte(nil), iv...)
	carry := n
	for i := len(out) - 1; i >= 0 && carry > 0; i-- {
		s := uint64(out[i]) + (carry & 0xff)
		out[i] = byte(s)
		carry = (carry >> 8) + (s >> 8)
	}
	return out
}

// Cmp128 compares two equal-length big-endian numbers.
func Cmp128(a, b []byte) int {
	for i := range a {
		if a[i] != b[i] {
			if a[i] < b[i] {
				return -1
			}
			return 1
		}
	}
	return 0
}

// Sub128 returns a-b modulo 2^128 as (hi, lo).
func Sub128(a, b []byte) (hi, lo uint64) {
	var r [16]byte
	borrow := 0
	for i := 15; i >= 0; i-- {
		d := int(a[i]) - int(b[i]) - borrow
		if d < 0 {
			d += 256
			borrow = 1
		} else {
			borrow = 0
		}
		r[i] = byte(d)
	}
	for i := 0; i < 8; i++ {
		hi = hi<<8 | uint64(r[i])
		lo = lo<<8 | uint64(r[8+i])
	}
	return
}

// CTR applies AES-CTR (NIST SP 800-38A, full 128-bit big-endian counter
// increment) to the bytes of data covered by ranges, as ONE continuous key
// stream per sample: key stream bytes are consumed only by protected bytes
// (23001-7 §9.5). ranges == nil means the whole of data. It returns the
// transformed copy and the number of counter blocks that were used.
func CTR(key, iv []byte, data []byte, ranges []Range) ([]byte, int, error) {
	blk, err := aes.NewCipher(key)
	if err != nil {
		return nil, 0, err
	}
	ctr, err := IV16(iv)
	if err != nil {
		return nil, 0, err
	}
	out := append([]byte(nil), data...)
	if ranges == nil {
		ranges = []Range{{0, len(data)}}
	}
	var ks [16]byte
	used := 16 // position in ks; 16 = exhausted
	nblocks := 0
	for _, r := range ranges {
		if r.Off < 0 || r.Len < 0 || r.Off+r.Len > len(out) {
			return nil, 0, fmt.Errorf("range %+v outside the %d-byte sample", r, len(out))
		}
		for i := r.Off; i < r.Off+r.Len; i++ {
			if used == 16 {
				blk.Encrypt(ks[:], ctr)
				ctr = Add128(ctr, 1)
				used = 0
				nblocks++
			}
			out[i] ^= ks[used]
			used++
		}
	}
	return out, nblocks, nil
}

// CBCS applies the 'cbcs' transform: every range is processed on its own,
// the CBC chain restarts from iv at the start of every range (23001-7 §9.6 /
// §10.4.2), and inside a range the pattern crypt:skip (in 16-byte blocks) is
// applied: `crypt` blocks are CBC-processed (chained over the skipped
// blocks), `skip` blocks are left alone, repeated; a trailing partial block
// is always left alone. crypt==0 && skip==0 (or skip==0) means unpatterned:
// every whole block of the range is processed. ranges == nil means the whole
// of data. decrypt selects the direction.
func CBCS(key, iv []byte, data []byte, ranges []Range, crypt, skip int, decrypt bool) ([]byte, error) {
	blk, err := aes.NewCipher(key)
	if err != nil {
		return nil, err
	}
	iv16, err := IV16(iv)
	if err != nil {
		return nil, err
	}
	out := append([]byte(nil), data...)
	if ranges == nil {
		ranges = []Range{{0, len(data)}}
	}
	if crypt == 0 && skip == 0 {
		crypt = 1
	}
	if crypt == 0 {
		return out, nil
	}
	for _, r := range ranges {
		if r.Off < 0 || r.Len < 0 || r.Off+r.Len > len(out) {
			return nil, fmt.Errorf("range %+v outside the %d-byte sample", r, len(out))
		}
		chain := append([]byte(nil), iv16...)
		pos, end := r.Off, r.Off+r.Len
		for end-pos >= 16 {
			for k := 0; k < crypt && end-pos >= 16; k++ {
				b := out[pos : pos+16]
				if decrypt {
					var ct, pt [16]byte
					copy(ct[:], b)
					blk.Decrypt(pt[:], ct[:])
					for j := 0; j < 16; j++ {
						b[j] = pt[j] ^ chain[j]
					}
					copy(chain, ct[:])
				} else {
					var x [16]byte
					for j := 0; j < 16; j++ {
						x[j] = b[j] ^ chain[j]
					}
					blk.Encrypt(b, x[:])
					copy(chain, b)
				}
				pos += 16
			}
			pos += 16 * skip
		}
	}
	return out, nil
}
