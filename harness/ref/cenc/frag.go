package cenc

import (
	"fmt"

	"verifharness/ref/boxwalk"
)

// Trex holds the movie-level defaults of one track (ISO/IEC 14496-12 §8.8.3).
type Trex struct {
	TrackID, DefaultSDI, DefaultDuration, DefaultSize, DefaultFlags uint32
}

// ParseTrex parses a trex payload.
func ParseTrex(p []byte) (*Trex, error) {
	r := &rd{b: p}
	r.u32()
	t := &Trex{TrackID: r.u32(), DefaultSDI: r.u32(), DefaultDuration: r.u32(), DefaultSize: r.u32(), DefaultFlags: r.u32()}
	if r.err != nil {
		return nil, r.err
	}
	if r.left() != 0 {
		return nil, fmt.Errorf("trex: %d stray bytes", r.left())
	}
	return t, nil
}

// Tfhd is a parsed TrackFragmentHeaderBox (§8.8.7).
type Tfhd struct {
	Flags                                           uint32
	TrackID                                         uint32
	BaseDataOffset                                  uint64
	SDI, DefaultDuration, DefaultSize, DefaultFlags uint32
	HasBase, HasSDI, HasDuration, HasSize, HasFlags bool
	DurationIsEmpty, DefaultBaseIsMoof              bool
}

// ParseTfhd parses a tfhd payload.
func ParseTfhd(p []byte) (*Tfhd, error) {
	r := &rd{b: p}
	vf := r.u32()
	t := &Tfhd{Flags: vf & 0xffffff}
	t.TrackID = r.u32()
	if t.Flags&0x1 != 0 {
		t.HasBase = true
		t.BaseDataOffset = r.u64()
	}
	if t.Flags&0x2 != 0 {
		t.HasSDI = true
		t.SDI = r.u32()
	}
	if t.Flags&0x8 != 0 {
		t.HasDuration = true
		t.DefaultDuration = r.u32()
	}
	if t.Flags&0x10 != 0 {
		t.HasSize = true
		t.DefaultSize = r.u32()
	}
	if t.Flags&0x20 != 0 {
		t.HasFlags = true
		t.DefaultFlags = r.u32()
	}
	t.DurationIsEmpty = t.Flags&0x10000 != 0
	t.DefaultBaseIsMoof = t.Flags&0x20000 != 0
	if r.err != nil {
		return nil, r.err
	}
	if r.left() != 0 {
		return nil, fmt.Errorf("tfhd: %d stray bytes", r.left())
	}
	return t, nil
}

// ParseTfdt returns baseMediaDecodeTime.
func ParseTfdt(p []byte) (uint64, error) {
	r := &rd{b: p}
	vf := r.u32()
	var t uint64
	if vf>>24 == 0 {
		t = uint64(r.u32())
	} else {
		t = r.u64()
	}
	if r.err != nil {
		return 0, r.err
	}
	if r.left() != 0 {
		return 0, fmt.Errorf("tfdt: %d stray bytes", r.left())
	}
	return t, nil
}

// TrunEntry is one row of a trun as written.
type TrunEntry struct {
	Dur, Size, Flags uint32
	Cto              int64
}

// Trun is a parsed TrackRunBox (§8.8.8).
type Trun struct {
	Version          byte
	Flags            uint32
	Count            uint32
	DataOffset       int32
	HasDataOffset    bool
	DataOffsetPos    int // offset of the data_offset field from the start of the payload
	FirstSampleFlags uint32
	HasFirstFlags    bool
	Entries          []TrunEntry
}

// ParseTrun parses a trun payload.
func ParseTrun(p []byte) (*Trun, error) {
	r := &rd{b: p}
	vf := r.u32()
	t := &Trun{Version: byte(vf >> 24), Flags: vf & 0xffffff}
	t.Count = r.u32()
	if t.Flags&0x1 != 0 {
		t.HasDataOffset = true
		t.DataOffsetPos = r.pos
		t.DataOffset = int32(r.u32())
	}
	if t.Flags&0x4 != 0 {
		t.HasFirstFlags = true
		t.FirstSampleFlags = r.u32()
	}
	if r.err != nil {
		return nil, r.err
	}
	per := 0
	for _, f := range []uint32{0x100, 0x200, 0x400, 0x800} {
		if t.Flags&f != 0 {
			per += 4
		}
	}
	if int64(t.Count)*int64(per) != int64(r.left()) {
		return nil, fmt.Errorf("trun: %d samples x %d bytes but %d bytes left", t.Count, per, r.left())
	}
	for i := uint32(0); i < t.Count; i++ {
		var e TrunEntry
		if t.Flags&0x100 != 0 {
			e.Dur = r.u32()
		}
		if t.Flags&0x200 != 0 {
			e.Size = r.u32()
		}
		if t.Flags&0x400 != 0 {
			e.Flags = r.u32()
		}
		if t.Flags&0x800 != 0 {
			v := r.u32()
			if t.Version == 0 {
				e.Cto = int64(v)
			} else {
				e.Cto = int64(int32(v))
			}
		}
		t.Entries = append(t.Entries, e)
	}
	return t, r.err
}

// Sample is one sample located in a file.
type Sample struct {
	Off        int // absolute offset of the first byte in the file
	Size       uint32
	Dur        uint32
	Flags      uint32
	Cto        int64
	DecodeTime uint64
}

// Run is the samples of one trun.
type Run struct {
	Node     *boxwalk.Node
	Trun     *Trun
	FirstOff int // absolute offset of the first sample byte of the run
	Samples  []Sample
}

// Traf is one track fragment located in a file.
type Traf struct {
	Node    *boxwalk.Node
	Tfhd    *Tfhd
	HasTfdt bool
	BaseDT  uint64
	Runs    []Run
}

// Samples returns the samples of all runs in order.
func (t *Traf) Samples() []Sample {
	var out []Sample
	for _, r := range t.Runs {
		out = append(out, r.Samples...)
	}
	return out
}

// LocateFragment expands the trafs of one moof (node of the walked file b)
// to samples with absolute file positions, following §8.8.7/§8.8.8: base =
// base_data_offset | moof start (default-base-is-moof, or first traf) | end
// of the previous traf's data; a run starts at base+data_offset or right
// after the previous run. trex may be nil (all defaults zero).
func LocateFragment(b []byte, moof *boxwalk.Node, trex map[uint32]*Trex) ([]*Traf, error) {
	var out []*Traf
	prevEnd := -1
	for ti, tn := range moof.Children {
		if tn.Type != "traf" {
			continue
		}
		tf := &Traf{Node: tn}
		hn := tn.Child("tfhd")
		if hn == nil {
			return nil, fmt.Errorf("traf %d without tfhd", ti)
		}
		var err error
		if tf.Tfhd, err = ParseTfhd(hn.Payload(b)); err != nil {
			return nil, err
		}
		if dn := tn.Child("tfdt"); dn != nil {
			if tf.BaseDT, err = ParseTfdt(dn.Payload(b)); err != nil {
				return nil, err
			}
			tf.HasTfdt = true
		}
		var tx Trex
		if trex != nil && trex[tf.Tfhd.TrackID] != nil {
			tx = *trex[tf.Tfhd.TrackID]
		}
		base := moof.Start
		switch {
		case tf.Tfhd.HasBase:
			base = int(tf.Tfhd.BaseDataOffset)
		case tf.Tfhd.DefaultBaseIsMoof || len(out) == 0:
			base = moof.Start
		default:
			if prevEnd < 0 {
				return nil, fmt.Errorf("traf %d: no base for data offsets", ti)
			}
			base = prevEnd
		}
		dt := tf.BaseDT
		cur := base
		for _, rn := range tn.Children {
			if rn.Type != "trun" {
				continue
			}
			tr, err := ParseTrun(rn.Payload(b))
			if err != nil {
				return nil, err
			}
			run := Run{Node: rn, Trun: tr}
			if tr.HasDataOffset {
				cur = base + int(tr.DataOffset)
			}
			run.FirstOff = cur
			for i, e := range tr.Entries {
				s := Sample{Off: cur, DecodeTime: dt, Cto: e.Cto}
				switch {
				case tr.Flags&0x100 != 0:
					s.Dur = e.Dur
				case tf.Tfhd.HasDuration:
					s.Dur = tf.Tfhd.DefaultDuration
				default:
					s.Dur = tx.DefaultDuration
				}
				switch {
				case tr.Flags&0x200 != 0:
					s.Size = e.Size
				case tf.Tfhd.HasSize:
					s.Size = tf.Tfhd.DefaultSize
				default:
					s.Size = tx.DefaultSize
				}
				switch {
				case tr.Flags&0x400 != 0:
					s.Flags = e.Flags
				case i == 0 && tr.HasFirstFlags:
					s.Flags = tr.FirstSampleFlags
				case tf.Tfhd.HasFlags:
					s.Flags = tf.Tfhd.DefaultFlags
				default:
					s.Flags = tx.DefaultFlags
				}
				if cur < 0 || cur+int(s.Size) > len(b) {
					return nil, fmt.Errorf("sample %d of run at %d: bytes [%d,%d) outside the %d-byte file", i, rn.Start, cur, cur+int(s.Size), len(b))
				}
				run.Samples = append(run.Samples, s)
				cur += int(s.Size)
				dt += uint64(s.Dur)
			}
			tf.Runs = append(tf.Runs, run)
		}
		prevEnd = cur
		out = append(out, tf)
	}
	return out, nil
}

// TrexMap collects the trex boxes of a walked file.
func TrexMap(b []byte, nodes []*boxwalk.Node) (map[uint32]*Trex, error) {
	m := map[uint32]*Trex{}
	for _, n := range boxwalk.Find(nodes, "trex") {
		t, err := ParseTrex(n.Payload(b))
		if err != nil {
			return nil, err
		}
		m[t.TrackID] = t
	}
	return m, nil
}
