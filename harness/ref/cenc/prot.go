package cenc

import (
	"bytes"
	"encoding/binary"
	"fmt"

	"verifharness/ref/boxwalk"
)

// PIFF usertypes (PIFF 1.1 §5.3): sample encryption box and track encryption box.
var (
	UUIDPiffSenc = []byte{0xa2, 0x39, 0x4f, 0x52, 0x5a, 0x9b, 0x4f, 0x14, 0xa2, 0x44, 0x6c, 0x42, 0x7c, 0x64, 0x8d, 0xf4}
	UUIDPiffTenc = []byte{0x89, 0x74, 0xdb, 0xce, 0x7b, 0xe7, 0x4c, 0x51, 0x84, 0xf9, 0x71, 0x48, 0xf9, 0x88, 0x25, 0x54}
)

// Protection is what an init segment says about one track.
type Protection struct {
	TrackID    uint32
	EntryType  string // 4cc of the (first) sample entry as written: encv, enca, avc1, ...
	EntryNode  *boxwalk.Node
	Sinf       *boxwalk.Node
	Frma       string
	Schm       *Schm
	Tenc       *Tenc
	TencNode   *boxwalk.Node
	PiffTenc   bool
	NumEntries int
}

// TrackID reads track_ID out of a tkhd payload.
func TrackID(tkhdPayload []byte) (uint32, error) {
	if len(tkhdPayload) < 4 {
		return 0, fmt.Errorf("tkhd too short")
	}
	off := 4 + 8
	if tkhdPayload[0] == 1 {
		off = 4 + 16
	}
	if len(tkhdPayload) < off+4 {
		return 0, fmt.Errorf("tkhd too short")
	}
	return binary.BigEndian.Uint32(tkhdPayload[off:]), nil
}

// TrackProtections reads, for every trak of a walked file, the sample entry
// type and the protection scheme information found under it.
func TrackProtections(b []byte, nodes []*boxwalk.Node) ([]*Protection, error) {
	var out []*Protection
	for _, trak := range boxwalk.Find(nodes, "trak") {
		p := &Protection{}
		tk := trak.Child("tkhd")
		if tk == nil {
			return nil, fmt.Errorf("trak without tkhd")
		}
		var err error
		if p.TrackID, err = TrackID(tk.Payload(b)); err != nil {
			return nil, err
		}
		stsd := trak.Descend("mdia", "minf", "stbl", "stsd")
		if stsd == nil {
			return nil, fmt.Errorf("trak %d without stsd", p.TrackID)
		}
		p.NumEntries = len(stsd.Children)
		if len(stsd.Children) > 0 {
			e := stsd.Children[0]
			p.EntryType = e.Type
			p.EntryNode = e
			if sinf := e.Child("sinf"); sinf != nil {
				p.Sinf = sinf
				if f := sinf.Child("frma"); f != nil {
					if p.Frma, err = ParseFrma(f.Payload(b)); err != nil {
						return nil, err
					}
				}
				if s := sinf.Child("schm"); s != nil {
					if p.Schm, err = ParseSchm(s.Payload(b)); err != nil {
						return nil, err
					}
				}
				if schi := sinf.Child("schi"); schi != nil {
					if t := schi.Child("tenc"); t != nil {
						p.TencNode = t
						if p.Tenc, err = ParseTenc(t.Payload(b)); err != nil {
							return nil, err
						}
					} else {
						for _, u := range schi.Children {
							pl := u.Payload(b)
							if u.Type == "uuid" && len(pl) >= 16 && bytes.Equal(pl[:16], UUIDPiffTenc) {
								p.TencNode = u
								p.PiffTenc = true
								if p.Tenc, err = parsePiffTenc(pl[16:]); err != nil {
									return nil, err
								}
							}
						}
					}
				}
			}
		}
		out = append(out, p)
	}
	return out, nil
}

// parsePiffTenc: version/flags, default_AlgorithmID(24), default_IV_size(8), default_KID(16).
func parsePiffTenc(p []byte) (*Tenc, error) {
	r := &rd{b: p}
	vf := r.u32()
	t := &Tenc{Version: byte(vf >> 24), Flags: vf & 0xffffff}
	alg := uint32(r.u8())<<16 | uint32(r.u16())
	t.IsProtected = byte(alg)
	t.PerSampleIVSize = int(r.u8())
	t.KID = r.bytes(16)
	if r.err != nil {
		return nil, r.err
	}
	return t, nil
}

// FindSenc returns the sample encryption payload of a traf: the senc box
// payload, or the PIFF uuid form (payload after the usertype).
func FindSenc(b []byte, traf *boxwalk.Node) (node *boxwalk.Node, payload []byte, payloadOff int, piff bool) {
	for _, c := range traf.Children {
		if c.Type == "senc" {
			return c, c.Payload(b), c.Start + c.HdrLen, false
		}
		if c.Type == "uuid" {
			pl := c.Payload(b)
			if len(pl) >= 16 && bytes.Equal(pl[:16], UUIDPiffSenc) {
				return c, pl[16:], c.Start + c.HdrLen + 16, true
			}
		}
	}
	return nil, nil, 0, false
}
