// Package sei is an independent model of SEI RBSP framing (ISO/IEC 14496-10
// §7.3.2.3 / §7.3.2.3.1, ISO/IEC 23008-2 §7.3.2.4 / §7.3.5): the ff-byte run
// coding of payload type and payload size, payload framing, rbsp trailing bits,
// emulation prevention (through ref/bitw), and the bit layouts of the typed
// payloads the library can serialise (AVC pic_timing D.1.3, HEVC time_code
// D.2.27, mastering_display_colour_volume D.2.28, content_light_level_info
// D.2.35) plus HEVC pic_timing D.2.3 used as pass-through input.
// It never imports mp4ff.
package sei

import (
	"errors"

	"verifharness/ref/bitw"
)

// Msg is one sei_message(): payload type and raw (RBSP) payload bytes.
type Msg struct {
	Type    uint
	Payload []byte
}

// CodeValue codes v as ff-bytes followed by a last byte < 255
// (payload_type / payload_size syntax of sei_message()).
func CodeValue(v uint) []byte {
	var out []byte
	for v >= 255 {
		out = append(out, 0xff)
		v -= 255
	}
	return append(out, byte(v))
}

// RBSP returns sei_rbsp(): the messages followed by rbsp_trailing_bits.
func RBSP(msgs []Msg) []byte {
	var out []byte
	for _, m := range msgs {
		out = append(out, CodeValue(m.Type)...)
		out = append(out, CodeValue(uint(len(m.Payload)))...)
		out = append(out, m.Payload...)
	}
	return append(out, 0x80)
}

// NALPayload returns the SEI NAL unit payload (after the NAL header):
// the RBSP with emulation prevention bytes.
func NALPayload(msgs []Msg) []byte { return bitw.Escape(RBSP(msgs)) }

// Errors of Parse.
var (
	ErrTruncated    = errors.New("ref/sei: truncated message")
	ErrNoTrailing   = errors.New("ref/sei: rbsp trailing bits missing")
	ErrBadTrailing  = errors.New("ref/sei: malformed rbsp trailing bits")
	ErrEmptySEIRBSP = errors.New("ref/sei: no message in sei_rbsp")
)

// Parse reads an SEI NAL unit payload (EBSP, after the NAL header) back into
// its messages, byte by byte.
func Parse(ebsp []byte) ([]Msg, error) {
	b := bitw.Unescape(ebsp)
	// locate the rbsp_stop_one_bit: last non-zero byte must be 0x80 here as
	// all messages are byte aligned.
	end := len(b)
	for end > 0 && b[end-1] == 0 {
		end--
	}
	if end == 0 {
		return nil, ErrNoTrailing
	}
	if b[end-1] != 0x80 {
		// the last 1 bit is not at a byte boundary: messages are byte aligned,
		// so this cannot be the stop bit of a well-formed sei_rbsp
		return nil, ErrBadTrailing
	}
	data := b[:end-1]
	if len(data) == 0 {
		return nil, ErrEmptySEIRBSP
	}
	var msgs []Msg
	p := 0
	readVal := func() (uint, bool) {
		v := uint(0)
		for {
			if p >= len(data) {
				return 0, false
			}
			x := data[p]
			p++
			v += uint(x)
			if x != 0xff {
				return v, true
			}
		}
	}
	for p < len(data) {
		t, ok := readVal()
		if !ok {
			return nil, ErrTruncated
		}
		s, ok := readVal()
		if !ok {
			return nil, ErrTruncated
		}
		if p+int(s) > len(data) {
			return nil, ErrTruncated
		}
		msgs = append(msgs, Msg{Type: t, Payload: append([]byte(nil), data[p:p+int(s)]...)})
		p += int(s)
	}
	return msgs, nil
}

// ---------------------------------------------------------------------------
// Typed payload layouts

// Clock is clock timestamp syntax shared by AVC pic_timing (D.1.3) and HEVC
// time_code (D.2.27); the two differ in ct_type (AVC only), the width of
// n_frames (8 / 9) and in where time_offset_length comes from.
type Clock struct {
	Present       bool // clock_timestamp_flag
	CtType        uint // AVC only, 2 bits
	UnitsField    bool // nuit_field_based_flag / units_field_based_flag
	CountingType  uint // 5 bits
	Full          bool // full_timestamp_flag
	Discontinuity bool
	CntDropped    bool
	NFrames       uint // 8 bits AVC, 9 bits HEVC
	SecondsFlag   bool
	MinutesFlag   bool
	HoursFlag     bool
	Seconds       uint  // 6
	Minutes       uint  // 6
	Hours         uint  // 5
	OffsetLen     uint  // time_offset_length 0..31
	Offset        int64 // time_offset_value, i(v): two's complement in OffsetLen bits
}

func putSigned(w *bitw.W, v int64, n uint) {
	if n == 0 {
		return
	}
	w.Put(uint64(v)&(uint64(1)<<n-1), int(n))
}

func (c *Clock) putTime(w *bitw.W) {
	if c.Full {
		w.Put(uint64(c.Seconds), 6)
		w.Put(uint64(c.Minutes), 6)
		w.Put(uint64(c.Hours), 5)
		return
	}
	w.Flag(c.SecondsFlag)
	if c.SecondsFlag {
		w.Put(uint64(c.Seconds), 6)
		w.Flag(c.MinutesFlag)
		if c.MinutesFlag {
			w.Put(uint64(c.Minutes), 6)
			w.Flag(c.HoursFlag)
			if c.HoursFlag {
				w.Put(uint64(c.Hours), 5)
			}
		}
	}
}

// AVCPicTiming is pic_timing() of ISO/IEC 14496-10 D.1.3 with
// pic_struct_present_flag = 1.
type AVCPicTiming struct {
	HasDelays       bool // CpbDpbDelaysPresentFlag
	CpbRemovalLen   uint // cpb_removal_delay_length_minus1 + 1 (1..32)
	DpbOutputLen    uint
	CpbRemovalDelay uint64
	DpbOutputDelay  uint64
	PicStruct       uint // 0..8
	Clocks          []Clock
}

// NumClockTS is Table D-1.
func NumClockTS(picStruct uint) int {
	switch {
	case picStruct <= 2:
		return 1
	case picStruct <= 4:
		return 2
	case picStruct <= 8:
		return 3
	}
	return -1
}

// Bits serialises the syntax elements and returns the writer (not aligned).
func (p *AVCPicTiming) Bits() *bitw.W {
	w := &bitw.W{}
	if p.HasDelays {
		w.Put(p.CpbRemovalDelay, int(p.CpbRemovalLen))
		w.Put(p.DpbOutputDelay, int(p.DpbOutputLen))
	}
	w.Put(uint64(p.PicStruct), 4)
	for i := range p.Clocks {
		c := &p.Clocks[i]
		w.Flag(c.Present)
		if !c.Present {
			continue
		}
		w.Put(uint64(c.CtType), 2)
		w.Flag(c.UnitsField)
		w.Put(uint64(c.CountingType), 5)
		w.Flag(c.Full)
		w.Flag(c.Discontinuity)
		w.Flag(c.CntDropped)
		w.Put(uint64(c.NFrames), 8)
		c.putTime(w)
		putSigned(w, c.Offset, c.OffsetLen)
	}
	return w
}

// HEVCTimeCode is time_code() of ISO/IEC 23008-2 D.2.27.
type HEVCTimeCode struct {
	Clocks []Clock // 0..3
}

// Bits serialises the syntax elements (not aligned).
func (t *HEVCTimeCode) Bits() *bitw.W {
	w := &bitw.W{}
	w.Put(uint64(len(t.Clocks)), 2)
	for i := range t.Clocks {
		c := &t.Clocks[i]
		w.Flag(c.Present)
		if !c.Present {
			continue
		}
		w.Flag(c.UnitsField)
		w.Put(uint64(c.CountingType), 5)
		w.Flag(c.Full)
		w.Flag(c.Discontinuity)
		w.Flag(c.CntDropped)
		w.Put(uint64(c.NFrames), 9)
		c.putTime(w)
		w.Put(uint64(c.OffsetLen), 5)
		putSigned(w, c.Offset, c.OffsetLen)
	}
	return w
}

// PayloadAVC aligns payload bits the way sei_payload() of ISO/IEC 14496-10
// §7.3.2.3.1 does: if not byte aligned, a 1 bit then zero bits.
func PayloadAVC(w *bitw.W) []byte {
	if w.NBits()%8 != 0 {
		w.TrailingBits()
	}
	return w.Bytes()
}

// MDCV is mastering_display_colour_volume() (24 bytes).
type MDCV struct {
	PrimX, PrimY   [3]uint16
	WhiteX, WhiteY uint16
	MaxLum, MinLum uint32
}

// Bytes serialises the message.
func (m *MDCV) Bytes() []byte {
	w := &bitw.W{}
	for i := 0; i < 3; i++ {
		w.Put(uint64(m.PrimX[i]), 16)
		w.Put(uint64(m.PrimY[i]), 16)
	}
	w.Put(uint64(m.WhiteX), 16)
	w.Put(uint64(m.WhiteY), 16)
	w.Put(uint64(m.MaxLum), 32)
	w.Put(uint64(m.MinLum), 32)
	return w.Bytes()
}

// CLL is content_light_level_info() (4 bytes).
type CLL struct{ MaxCLL, MaxFALL uint16 }

// Bytes serialises the message.
func (c *CLL) Bytes() []byte {
	w := &bitw.W{}
	w.Put(uint64(c.MaxCLL), 16)
	w.Put(uint64(c.MaxFALL), 16)
	return w.Bytes()
}

// HEVCPicTimingParams are the SPS/VUI/HRD values pic_timing() of
// ISO/IEC 23008-2 D.2.3 depends on.
type HEVCPicTimingParams struct {
	FrameFieldInfoPresent         bool
	CpbDpbDelaysPresent           bool
	SubPicHrdParamsPresent        bool
	SubPicCpbParamsInPicTiming    bool
	AuCpbRemovalDelayLen          uint // length_minus1 + 1
	DpbOutputDelayLen             uint
	DpbOutputDelayDuLen           uint
	DuCpbRemovalDelayIncrementLen uint
}

// HEVCPicTiming is pic_timing() of ISO/IEC 23008-2 D.2.3.
type HEVCPicTiming struct {
	PicStruct, SourceScanType uint
	Duplicate                 bool
	AuCpbRemovalDelayMinus1   uint64
	PicDpbOutputDelay         uint64
	PicDpbOutputDuDelay       uint64
	DuCommonCpbRemovalDelay   bool
	DuCommonIncrementMinus1   uint64
	NumNalusInDuMinus1        []uint64 // num_decoding_units_minus1+1 entries
	DuIncrementMinus1         []uint64 // one fewer (only when !DuCommon)
}

// Bits serialises the message under the given parameters (not aligned).
func (p *HEVCPicTiming) Bits(par *HEVCPicTimingParams) *bitw.W {
	w := &bitw.W{}
	if par.FrameFieldInfoPresent {
		w.Put(uint64(p.PicStruct), 4)
		w.Put(uint64(p.SourceScanType), 2)
		w.Flag(p.Duplicate)
	}
	if par.CpbDpbDelaysPresent {
		w.Put(p.AuCpbRemovalDelayMinus1, int(par.AuCpbRemovalDelayLen))
		w.Put(p.PicDpbOutputDelay, int(par.DpbOutputDelayLen))
		if par.SubPicHrdParamsPresent {
			w.Put(p.PicDpbOutputDuDelay, int(par.DpbOutputDelayDuLen))
		}
		if par.SubPicHrdParamsPresent && par.SubPicCpbParamsInPicTiming {
			n := len(p.NumNalusInDuMinus1)
			w.UE(uint64(n - 1))
			w.Flag(p.DuCommonCpbRemovalDelay)
			if p.DuCommonCpbRemovalDelay {
				w.Put(p.DuCommonIncrementMinus1, int(par.DuCpbRemovalDelayIncrementLen))
			}
			for i := 0; i < n; i++ {
				w.UE(p.NumNalusInDuMinus1[i])
				if !p.DuCommonCpbRemovalDelay && i < n-1 {
					w.Put(p.DuIncrementMinus1[i], int(par.DuCpbRemovalDelayIncrementLen))
				}
			}
		}
	}
	return w
}

// PayloadHEVC aligns payload bits the way sei_payload() of ISO/IEC 23008-2
// §7.3.5 does when no extension data follows: if not byte aligned,
// payload_bit_equal_to_one then zero bits.
func PayloadHEVC(w *bitw.W) []byte {
	if w.NBits()%8 != 0 {
		w.TrailingBits()
	}
	return w.Bytes()
}

// CEA608Header is the fixed user_data_registered_itu_t_t35 prefix of ATSC A/53
// cc_data: country b5, provider 0031, user identifier "GA94", type 03.
var CEA608Header = []byte{0xb5, 0x00, 0x31, 0x47, 0x41, 0x39, 0x34, 0x03}

// CCTriple is one cc_data_pkt of CTA-708 §4.3.
type CCTriple struct {
	Valid  bool
	Type   uint // 0 field 1, 1 field 2, 2/3 DTVCC
	D1, D2 byte
}

// CEA608Payload builds a type-4 payload carrying the triples and returns the
// expected field-1 / field-2 byte pairs (valid, non-empty after parity strip).
func CEA608Payload(tr []CCTriple) (payload, f1, f2 []byte) {
	payload = append(payload, CEA608Header...)
	payload = append(payload, 0xc0|byte(len(tr)&0x1f)) // process_em_data, process_cc_data, zero bit, cc_count
	payload = append(payload, 0xff)                    // em_data
	for _, t := range tr {
		b := byte(0xf8) | byte(t.Type&3)
		if t.Valid {
			b |= 4
		}
		payload = append(payload, b, t.D1, t.D2)
		if t.Valid && (t.D1&0x7f != 0 || t.D2&0x7f != 0) {
			switch t.Type {
			case 0:
				f1 = append(f1, t.D1, t.D2)
			case 1:
				f2 = append(f2, t.D1, t.D2)
			}
		}
	}
	payload = append(payload, 0xff) // marker_bits
	return
}
