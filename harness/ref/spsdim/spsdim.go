// Package spsdim is a small independent model of the part of the AVC
// (ISO/IEC 14496-10 §7.3.2.1.1, §7.4.2.1.1) and HEVC (ISO/IEC 23008-2
// §7.3.2.2, §7.3.3, §7.4.3.2.1) sequence parameter sets that determines the
// cropped picture size, profile/level, chroma format and bit depths.
//
// It contains (a) serializers of complete, syntactically valid SPS (and
// minimal PPS / VPS / prefix SEI) NAL units with chosen values, whose expected
// dimensions follow from the values the caller chose, and (b) readers that
// parse a NAL unit just far enough to compute the same quantities for
// parameter sets harvested from real streams. It never imports mp4ff.
package spsdim

import (
	"errors"
	"fmt"

	"verifharness/ref/bitw"
)

// Info is what the monitors need to know about an SPS.
type Info struct {
	Codec          string // "avc" | "hevc"
	Width, Height  uint32 // cropped (conformance window / frame cropping applied)
	CodedWidth     uint32 // before cropping
	CodedHeight    uint32
	ChromaFormat   uint32 // chroma_format_idc (1 when absent in AVC)
	SeparatePlanes bool
	BitDepthLuma   uint32 // 8 + bit_depth_luma_minus8
	BitDepthChroma uint32
	Cropped        bool
	// AVC
	ProfileIDC   byte
	ConstraintB  byte // the byte holding constraint_set flags
	LevelIDC     byte
	HighSyntax   bool // the profile carries chroma_format_idc etc.
	FrameMbsOnly bool
	// HEVC general profile_tier_level
	ProfileSpace  byte
	Tier          bool
	HProfileIDC   byte
	CompatFlags   uint32
	ConstraintInd uint64 // 48 bits
	HLevelIDC     byte
}

// ---------------------------------------------------------------------------
// AVC

// AVCSPS holds the values to serialise.
type AVCSPS struct {
	ProfileIDC  byte
	ConstraintB byte
	LevelIDC    byte
	SPSID       uint64
	// high-profile syntax (written iff HighSyntax(ProfileIDC))
	ChromaFormatIDC uint64
	SeparatePlanes  bool // only if ChromaFormatIDC == 3
	BitDepthLumaM8  uint64
	BitDepthChromM8 uint64
	QPPrimeBypass   bool
	ScalingMatrix   bool // writes a matrix with some lists present
	ScalingSeed     uint64
	// ScalingShort (default off: every present list carries all of its 16/64 delta_scale values):
	// about two thirds of the present lists end early, either with delta_scale -8 as the first
	// value (next scale 0 at j=0: "use the default list", no further delta follows) or after
	// 1..size-1 values with a delta that makes the next scale 0 (the rest of the list repeats the
	// last value and no further delta follows), 14496-10 7.3.2.1.1.1
	ScalingShort bool

	Log2MaxFrameNumM4 uint64
	PocType           uint64 // 0,1,2
	Log2MaxPocLsbM4   uint64
	PocCycle          []int64 // poc type 1: offset_for_ref_frame
	NumRefFrames      uint64
	Gaps              bool
	WidthMbsM1        uint64
	HeightMapUnitsM1  uint64
	FrameMbsOnly      bool
	MbAff             bool
	Direct8x8         bool
	Crop              bool
	CropL, CropR      uint64
	CropT, CropB      uint64
	VUI               bool // writes a VUI with aspect_ratio_idc=1 (1:1) and nothing else
}

// AVCHighSyntax tells whether profile_idc carries chroma_format_idc (the list
// of §7.3.2.1.1).
func AVCHighSyntax(profile byte) bool {
	switch profile {
	case 100, 110, 122, 244, 44, 83, 86, 118, 128, 138, 139, 134, 135:
		return true
	}
	return false
}

// NAL serialises the SPS as a NAL unit (header 0x67, emulation prevention applied).
func (p *AVCSPS) NAL() []byte {
	w := &bitw.W{}
	w.Put(uint64(p.ProfileIDC), 8)
	w.Put(uint64(p.ConstraintB), 8)
	w.Put(uint64(p.LevelIDC), 8)
	w.UE(p.SPSID)
	if AVCHighSyntax(p.ProfileIDC) {
		w.UE(p.ChromaFormatIDC)
		if p.ChromaFormatIDC == 3 {
			w.Flag(p.SeparatePlanes)
		}
		w.UE(p.BitDepthLumaM8)
		w.UE(p.BitDepthChromM8)
		w.Flag(p.QPPrimeBypass)
		w.Flag(p.ScalingMatrix)
		if p.ScalingMatrix {
			n := 8
			if p.ChromaFormatIDC == 3 {
				n = 12
			}
			s := p.ScalingSeed
			for i := 0; i < n; i++ {
				s = s*6364136223846793005 + 1442695040888963407
				present := (s>>33)&1 == 1
				w.Flag(present)
				if !present {
					continue
				}
				size := 16
				if i >= 6 {
					size = 64
				}
				// scaling_list(): delta_scale values; keep nextScale != 0 so that
				// all `size` deltas are present (lastScale=8, nextScale=8+delta)
				last := int64(8)
				cut := size // number of deltas that keep the next scale non-zero
				if p.ScalingShort {
					s = s*6364136223846793005 + 1442695040888963407
					switch (s >> 35) % 3 {
					case 1:
						cut = 0
					case 2:
						cut = 1 + int((s>>40)%uint64(size-1))
					}
				}
				if cut == 0 {
					w.SE(-8) // 8 + (-8) = 0 at j = 0
					continue
				}
				for j := 0; j < size; j++ {
					if j == cut {
						delta := -last // next scale 0: the list ends here
						if delta < -128 {
							delta += 256
						}
						w.SE(delta)
						break
					}
					s = s*6364136223846793005 + 1442695040888963407
					target := int64(1 + (s>>40)%200) // 1..200, never 0
					delta := target - last
					for delta > 127 {
						delta -= 256
					}
					for delta < -128 {
						delta += 256
					}
					w.SE(delta)
					last = (last + delta + 256) % 256
				}
			}
		}
	}
	w.UE(p.Log2MaxFrameNumM4)
	w.UE(p.PocType)
	switch p.PocType {
	case 0:
		w.UE(p.Log2MaxPocLsbM4)
	case 1:
		w.Flag(false) // delta_pic_order_always_zero_flag
		w.SE(-2)      // offset_for_non_ref_pic
		w.SE(1)       // offset_for_top_to_bottom_field
		w.UE(uint64(len(p.PocCycle)))
		for _, o := range p.PocCycle {
			w.SE(o)
		}
	}
	w.UE(p.NumRefFrames)
	w.Flag(p.Gaps)
	w.UE(p.WidthMbsM1)
	w.UE(p.HeightMapUnitsM1)
	w.Flag(p.FrameMbsOnly)
	if !p.FrameMbsOnly {
		w.Flag(p.MbAff)
	}
	w.Flag(p.Direct8x8)
	w.Flag(p.Crop)
	if p.Crop {
		w.UE(p.CropL)
		w.UE(p.CropR)
		w.UE(p.CropT)
		w.UE(p.CropB)
	}
	w.Flag(p.VUI)
	if p.VUI {
		w.Flag(true)  // aspect_ratio_info_present_flag
		w.Put(1, 8)   // aspect_ratio_idc = 1 (square)
		w.Flag(false) // overscan_info_present_flag
		w.Flag(false) // video_signal_type_present_flag
		w.Flag(false) // chroma_loc_info_present_flag
		w.Flag(false) // timing_info_present_flag
		w.Flag(false) // nal_hrd_parameters_present_flag
		w.Flag(false) // vcl_hrd_parameters_present_flag
		w.Flag(false) // pic_struct_present_flag
		w.Flag(false) // bitstream_restriction_flag
	}
	w.TrailingBits()
	return append([]byte{0x67}, bitw.Escape(w.Bytes())...)
}

// ScalingShapes names, for the evidence, how each of the scaling lists of the SPS is written
// ("absent", "full", "use-default", "tail-cut"); nil without a scaling matrix. It replays the
// draws of NAL.
func (p *AVCSPS) ScalingShapes() []string {
	if !AVCHighSyntax(p.ProfileIDC) || !p.ScalingMatrix {
		return nil
	}
	n := 8
	if p.ChromaFormatIDC == 3 {
		n = 12
	}
	var out []string
	s := p.ScalingSeed
	for i := 0; i < n; i++ {
		s = s*6364136223846793005 + 1442695040888963407
		if (s>>33)&1 != 1 {
			out = append(out, "absent")
			continue
		}
		size := 16
		if i >= 6 {
			size = 64
		}
		cut := size
		if p.ScalingShort {
			s = s*6364136223846793005 + 1442695040888963407
			switch (s >> 35) % 3 {
			case 1:
				cut = 0
			case 2:
				cut = 1 + int((s>>40)%uint64(size-1))
			}
		}
		switch {
		case cut == 0:
			out = append(out, "use-default")
			continue
		case cut < size:
			out = append(out, "tail-cut")
		default:
			out = append(out, "full")
		}
		for j := 0; j < cut; j++ {
			s = s*6364136223846793005 + 1442695040888963407
		}
	}
	return out
}

// Info gives the quantities implied by the chosen values (equations 7-13 to
// 7-21 and the frame cropping semantics of §7.4.2.1.1).
func (p *AVCSPS) Info() Info {
	in := Info{Codec: "avc", ProfileIDC: p.ProfileIDC, ConstraintB: p.ConstraintB, LevelIDC: p.LevelIDC,
		ChromaFormat: 1, BitDepthLuma: 8, BitDepthChroma: 8, FrameMbsOnly: p.FrameMbsOnly}
	if AVCHighSyntax(p.ProfileIDC) {
		in.HighSyntax = true
		in.ChromaFormat = uint32(p.ChromaFormatIDC)
		in.SeparatePlanes = p.ChromaFormatIDC == 3 && p.SeparatePlanes
		in.BitDepthLuma = 8 + uint32(p.BitDepthLumaM8)
		in.BitDepthChroma = 8 + uint32(p.BitDepthChromM8)
	}
	avcDims(&in, p.WidthMbsM1, p.HeightMapUnitsM1, p.Crop, p.CropL, p.CropR, p.CropT, p.CropB)
	return in
}

func avcDims(in *Info, wMbsM1, hMapM1 uint64, crop bool, l, r, t, b uint64) {
	picWidthInMbs := wMbsM1 + 1
	picHeightInMapUnits := hMapM1 + 1
	fmo := uint64(0)
	if in.FrameMbsOnly {
		fmo = 1
	}
	frameHeightInMbs := (2 - fmo) * picHeightInMapUnits
	in.CodedWidth = uint32(picWidthInMbs * 16)
	in.CodedHeight = uint32(frameHeightInMbs * 16)
	// ChromaArrayType
	cat := uint64(in.ChromaFormat)
	if in.SeparatePlanes {
		cat = 0
	}
	var cux, cuy uint64
	if cat == 0 {
		cux, cuy = 1, 2-fmo
	} else {
		subW, subH := uint64(2), uint64(2) // 4:2:0
		switch cat {
		case 2:
			subW, subH = 2, 1
		case 3:
			subW, subH = 1, 1
		}
		cux, cuy = subW, subH*(2-fmo)
	}
	in.Width, in.Height = in.CodedWidth, in.CodedHeight
	if crop {
		in.Cropped = l+r+t+b > 0
		in.Width = uint32(uint64(in.CodedWidth) - cux*(l+r))
		in.Height = uint32(uint64(in.CodedHeight) - cuy*(t+b))
	}
}

// ReadAVC parses an AVC SPS NAL unit (with NAL header) up to the cropping
// fields.
func ReadAVC(nal []byte) (Info, error) {
	if len(nal) < 5 {
		return Info{}, errors.New("short NAL")
	}
	if nal[0]&0x1f != 7 {
		return Info{}, fmt.Errorf("nal_unit_type %d is not SPS", nal[0]&0x1f)
	}
	r := bitw.NewR(bitw.Unescape(nal[1:]))
	in := Info{Codec: "avc", ChromaFormat: 1, BitDepthLuma: 8, BitDepthChroma: 8}
	in.ProfileIDC = byte(r.Get(8))
	in.ConstraintB = byte(r.Get(8))
	in.LevelIDC = byte(r.Get(8))
	r.UE() // sps id
	if AVCHighSyntax(in.ProfileIDC) {
		in.HighSyntax = true
		in.ChromaFormat = uint32(r.UE())
		if in.ChromaFormat == 3 {
			in.SeparatePlanes = r.Get(1) == 1
		}
		if in.ChromaFormat > 3 {
			return in, errors.New("chroma_format_idc > 3")
		}
		in.BitDepthLuma = 8 + uint32(r.UE())
		in.BitDepthChroma = 8 + uint32(r.UE())
		r.Get(1) // qpprime
		if r.Get(1) == 1 {
			n := 8
			if in.ChromaFormat == 3 {
				n = 12
			}
			for i := 0; i < n; i++ {
				if r.Get(1) == 0 {
					continue
				}
				size := 16
				if i >= 6 {
					size = 64
				}
				last, next := int64(8), int64(8)
				for j := 0; j < size; j++ {
					if next != 0 {
						d := r.SE()
						next = (last + d + 256) % 256
					}
					if next != 0 {
						last = next
					}
				}
			}
		}
	}
	r.UE() // log2_max_frame_num_minus4
	switch r.UE() {
	case 0:
		r.UE()
	case 1:
		r.Get(1)
		r.SE()
		r.SE()
		n := r.UE()
		if n > 255 {
			return in, errors.New("num_ref_frames_in_pic_order_cnt_cycle > 255")
		}
		for i := uint64(0); i < n; i++ {
			r.SE()
		}
	}
	r.UE() // max_num_ref_frames
	r.Get(1)
	w := r.UE()
	h := r.UE()
	in.FrameMbsOnly = r.Get(1) == 1
	if !in.FrameMbsOnly {
		r.Get(1)
	}
	r.Get(1) // direct_8x8
	crop := r.Get(1) == 1
	var l, rr, t, b uint64
	if crop {
		l, rr, t, b = r.UE(), r.UE(), r.UE(), r.UE()
	}
	if r.Err {
		return in, errors.New("ran out of bits")
	}
	if w > 1<<16 || h > 1<<16 {
		return in, errors.New("implausible size")
	}
	avcDims(&in, w, h, crop, l, rr, t, b)
	return in, nil
}

// AVCPPS serialises a minimal valid PPS NAL unit (header 0x68).
func AVCPPS(ppsID, spsID uint64, cabac bool, qp int64, transform8x8 bool) []byte {
	w := &bitw.W{}
	w.UE(ppsID)
	w.UE(spsID)
	w.Flag(cabac)
	w.Flag(false) // bottom_field_pic_order_in_frame_present_flag
	w.UE(0)       // num_slice_groups_minus1
	w.UE(0)       // num_ref_idx_l0_default_active_minus1
	w.UE(0)       // num_ref_idx_l1_default_active_minus1
	w.Flag(false) // weighted_pred_flag
	w.Put(0, 2)   // weighted_bipred_idc
	w.SE(qp)      // pic_init_qp_minus26
	w.SE(0)       // pic_init_qs_minus26
	w.SE(0)       // chroma_qp_index_offset
	w.Flag(true)  // deblocking_filter_control_present_flag
	w.Flag(false) // constrained_intra_pred_flag
	w.Flag(false) // redundant_pic_cnt_present_flag
	if transform8x8 {
		w.Flag(true)  // transform_8x8_mode_flag
		w.Flag(false) // pic_scaling_matrix_present_flag
		w.SE(0)       // second_chroma_qp_index_offset
	}
	w.TrailingBits()
	return append([]byte{0x68}, bitw.Escape(w.Bytes())...)
}

// ---------------------------------------------------------------------------
// HEVC

// HEVCPTL is the general part of profile_tier_level plus sub-layer presence.
type HEVCPTL struct {
	ProfileSpace  byte
	Tier          bool
	ProfileIDC    byte
	CompatFlags   uint32
	ConstraintInd uint64 // 48 bits: progressive, interlaced, non_packed, frame_only, 43 reserved + 1
	LevelIDC      byte
	// per sub-layer (max_sub_layers_minus1 entries): profile present / level present
	SubProfile []bool
	SubLevel   []bool
}

func (p *HEVCPTL) write(w *bitw.W, maxSubLayersM1 int) {
	w.Put(uint64(p.ProfileSpace), 2)
	w.Flag(p.Tier)
	w.Put(uint64(p.ProfileIDC), 5)
	w.Put(uint64(p.CompatFlags), 32)
	w.Put(p.ConstraintInd, 48)
	w.Put(uint64(p.LevelIDC), 8)
	for i := 0; i < maxSubLayersM1; i++ {
		w.Flag(p.SubProfile[i])
		w.Flag(p.SubLevel[i])
	}
	if maxSubLayersM1 > 0 {
		for i := maxSubLayersM1; i < 8; i++ {
			w.Put(0, 2)
		}
	}
	for i := 0; i < maxSubLayersM1; i++ {
		if p.SubProfile[i] {
			w.Put(uint64(p.ProfileSpace), 2)
			w.Flag(p.Tier)
			w.Put(uint64(p.ProfileIDC), 5)
			w.Put(uint64(p.CompatFlags), 32)
			w.Put(p.ConstraintInd, 48)
		}
		if p.SubLevel[i] {
			w.Put(uint64(p.LevelIDC), 8)
		}
	}
}

// HEVCSPS holds the values to serialise.
type HEVCSPS struct {
	VPSID           uint64
	MaxSubLayersM1  int
	TemporalNesting bool
	PTL             HEVCPTL
	SPSID           uint64
	ChromaFormatIDC uint64
	SeparatePlanes  bool
	Width, Height   uint64 // pic_width/height_in_luma_samples
	ConfWin         bool
	L, R, T, B      uint64
	BitDepthLumaM8  uint64
	BitDepthChromM8 uint64
	Log2MaxPocM4    uint64
	SubLayerOrdAll  bool
	Log2MinCbM3     uint64
	Log2DiffCb      uint64
	AMP, SAO        bool
	StrongIntra     bool
	TemporalMVP     bool
}

// NAL serialises the SPS as a NAL unit (header 0x42 0x01).
func (p *HEVCSPS) NAL() []byte {
	w := &bitw.W{}
	w.Put(p.VPSID, 4)
	w.Put(uint64(p.MaxSubLayersM1), 3)
	w.Flag(p.TemporalNesting)
	p.PTL.write(w, p.MaxSubLayersM1)
	w.UE(p.SPSID)
	w.UE(p.ChromaFormatIDC)
	if p.ChromaFormatIDC == 3 {
		w.Flag(p.SeparatePlanes)
	}
	w.UE(p.Width)
	w.UE(p.Height)
	w.Flag(p.ConfWin)
	if p.ConfWin {
		w.UE(p.L)
		w.UE(p.R)
		w.UE(p.T)
		w.UE(p.B)
	}
	w.UE(p.BitDepthLumaM8)
	w.UE(p.BitDepthChromM8)
	w.UE(p.Log2MaxPocM4)
	w.Flag(p.SubLayerOrdAll)
	start := p.MaxSubLayersM1
	if p.SubLayerOrdAll {
		start = 0
	}
	for i := start; i <= p.MaxSubLayersM1; i++ {
		w.UE(4) // sps_max_dec_pic_buffering_minus1
		w.UE(2) // sps_max_num_reorder_pics
		w.UE(0) // sps_max_latency_increase_plus1
	}
	w.UE(p.Log2MinCbM3)
	w.UE(p.Log2DiffCb)
	w.UE(0)       // log2_min_luma_transform_block_size_minus2
	w.UE(3)       // log2_diff_max_min_luma_transform_block_size
	w.UE(1)       // max_transform_hierarchy_depth_inter
	w.UE(1)       // max_transform_hierarchy_depth_intra
	w.Flag(false) // scaling_list_enabled_flag
	w.Flag(p.AMP)
	w.Flag(p.SAO)
	w.Flag(false) // pcm_enabled_flag
	w.UE(0)       // num_short_term_ref_pic_sets
	w.Flag(false) // long_term_ref_pics_present_flag
	w.Flag(p.TemporalMVP)
	w.Flag(p.StrongIntra)
	w.Flag(false) // vui_parameters_present_flag
	w.Flag(false) // sps_extension_present_flag
	w.TrailingBits()
	return append([]byte{0x42, 0x01}, bitw.Escape(w.Bytes())...)
}

func hevcDims(in *Info, w, h uint64, conf bool, l, r, t, b uint64) {
	in.CodedWidth, in.CodedHeight = uint32(w), uint32(h)
	in.Width, in.Height = in.CodedWidth, in.CodedHeight
	// Table 6-1
	subW, subH := uint64(1), uint64(1)
	if !in.SeparatePlanes {
		switch in.ChromaFormat {
		case 1:
			subW, subH = 2, 2
		case 2:
			subW, subH = 2, 1
		}
	}
	if conf {
		in.Cropped = l+r+t+b > 0
		in.Width = uint32(w - subW*(l+r))
		in.Height = uint32(h - subH*(t+b))
	}
}

// Info gives the quantities implied by the chosen values (§7.4.3.2.1:
// conformance window offsets are in units of SubWidthC / SubHeightC).
func (p *HEVCSPS) Info() Info {
	in := Info{Codec: "hevc", ChromaFormat: uint32(p.ChromaFormatIDC),
		SeparatePlanes: p.ChromaFormatIDC == 3 && p.SeparatePlanes,
		BitDepthLuma:   8 + uint32(p.BitDepthLumaM8), BitDepthChroma: 8 + uint32(p.BitDepthChromM8),
		ProfileSpace: p.PTL.ProfileSpace, Tier: p.PTL.Tier, HProfileIDC: p.PTL.ProfileIDC,
		CompatFlags: p.PTL.CompatFlags, ConstraintInd: p.PTL.ConstraintInd, HLevelIDC: p.PTL.LevelIDC}
	hevcDims(&in, p.Width, p.Height, p.ConfWin, p.L, p.R, p.T, p.B)
	return in
}

// ReadHEVC parses an HEVC SPS NAL unit (with 2-byte header) up to the bit depths.
func ReadHEVC(nal []byte) (Info, error) {
	if len(nal) < 16 {
		return Info{}, errors.New("short NAL")
	}
	if (nal[0]>>1)&0x3f != 33 {
		return Info{}, fmt.Errorf("nal_unit_type %d is not SPS", (nal[0]>>1)&0x3f)
	}
	r := bitw.NewR(bitw.Unescape(nal[2:]))
	in := Info{Codec: "hevc"}
	r.Get(4)
	maxSub := int(r.Get(3))
	r.Get(1)
	in.ProfileSpace = byte(r.Get(2))
	in.Tier = r.Get(1) == 1
	in.HProfileIDC = byte(r.Get(5))
	in.CompatFlags = uint32(r.Get(32))
	in.ConstraintInd = r.Get(48)
	in.HLevelIDC = byte(r.Get(8))
	subP := make([]bool, maxSub)
	subL := make([]bool, maxSub)
	for i := 0; i < maxSub; i++ {
		subP[i] = r.Get(1) == 1
		subL[i] = r.Get(1) == 1
	}
	if maxSub > 0 {
		for i := maxSub; i < 8; i++ {
			r.Get(2)
		}
	}
	for i := 0; i < maxSub; i++ {
		if subP[i] {
			r.Get(2 + 1 + 5 + 32)
			r.Get(48)
		}
		if subL[i] {
			r.Get(8)
		}
	}
	r.UE() // sps id
	in.ChromaFormat = uint32(r.UE())
	if in.ChromaFormat > 3 {
		return in, errors.New("chroma_format_idc > 3")
	}
	if in.ChromaFormat == 3 {
		in.SeparatePlanes = r.Get(1) == 1
	}
	w := r.UE()
	h := r.UE()
	conf := r.Get(1) == 1
	var l, rr, t, b uint64
	if conf {
		l, rr, t, b = r.UE(), r.UE(), r.UE(), r.UE()
	}
	in.BitDepthLuma = 8 + uint32(r.UE())
	in.BitDepthChroma = 8 + uint32(r.UE())
	if r.Err {
		return in, errors.New("ran out of bits")
	}
	if w > 1<<20 || h > 1<<20 {
		return in, errors.New("implausible size")
	}
	hevcDims(&in, w, h, conf, l, rr, t, b)
	return in, nil
}

// HEVCVPS serialises a minimal valid VPS NAL unit (header 0x40 0x01).
func HEVCVPS(vpsID uint64, maxSubLayersM1 int, nesting bool, ptl *HEVCPTL) []byte {
	w := &bitw.W{}
	w.Put(vpsID, 4)
	w.Flag(true) // vps_base_layer_internal_flag
	w.Flag(true) // vps_base_layer_available_flag
	w.Put(0, 6)  // vps_max_layers_minus1
	w.Put(uint64(maxSubLayersM1), 3)
	w.Flag(nesting)
	w.Put(0xffff, 16)
	ptl.write(w, maxSubLayersM1)
	w.Flag(false) // vps_sub_layer_ordering_info_present_flag
	w.UE(4)
	w.UE(2)
	w.UE(0)
	w.Put(0, 6)   // vps_max_layer_id
	w.UE(0)       // vps_num_layer_sets_minus1
	w.Flag(false) // vps_timing_info_present_flag
	w.Flag(false) // vps_extension_flag
	w.TrailingBits()
	return append([]byte{0x40, 0x01}, bitw.Escape(w.Bytes())...)
}

// HEVCPPS serialises a minimal valid PPS NAL unit (header 0x44 0x01).
func HEVCPPS(ppsID, spsID uint64, qp int64, signHiding bool) []byte {
	w := &bitw.W{}
	w.UE(ppsID)
	w.UE(spsID)
	w.Flag(false) // dependent_slice_segments_enabled_flag
	w.Flag(false) // output_flag_present_flag
	w.Put(0, 3)   // num_extra_slice_header_bits
	w.Flag(signHiding)
	w.Flag(false) // cabac_init_present_flag
	w.UE(0)
	w.UE(0)
	w.SE(qp)      // init_qp_minus26
	w.Flag(false) // constrained_intra_pred_flag
	w.Flag(false) // transform_skip_enabled_flag
	w.Flag(false) // cu_qp_delta_enabled_flag
	w.SE(0)       // pps_cb_qp_offset
	w.SE(0)       // pps_cr_qp_offset
	w.Flag(false) // pps_slice_chroma_qp_offsets_present_flag
	w.Flag(false) // weighted_pred_flag
	w.Flag(false) // weighted_bipred_flag
	w.Flag(false) // transquant_bypass_enabled_flag
	w.Flag(false) // tiles_enabled_flag
	w.Flag(false) // entropy_coding_sync_enabled_flag
	w.Flag(true)  // pps_loop_filter_across_slices_enabled_flag
	w.Flag(false) // deblocking_filter_control_present_flag
	w.Flag(false) // pps_scaling_list_data_present_flag
	w.Flag(false) // lists_modification_present_flag
	w.UE(0)       // log2_parallel_merge_level_minus2
	w.Flag(false) // slice_segment_header_extension_present_flag
	w.Flag(false) // pps_extension_present_flag
	w.TrailingBits()
	return append([]byte{0x44, 0x01}, bitw.Escape(w.Bytes())...)
}

// HEVCPrefixSEI serialises a prefix SEI NAL unit (type 39) with one message
// of the given payload type and payload bytes.
func HEVCPrefixSEI(payloadType int, payload []byte) []byte {
	var rbsp []byte
	for t := payloadType; ; t -= 255 {
		if t >= 255 {
			rbsp = append(rbsp, 0xff)
			continue
		}
		rbsp = append(rbsp, byte(t))
		break
	}
	for n := len(payload); ; n -= 255 {
		if n >= 255 {
			rbsp = append(rbsp, 0xff)
			continue
		}
		rbsp = append(rbsp, byte(n))
		break
	}
	rbsp = append(rbsp, payload...)
	rbsp = append(rbsp, 0x80)
	return append([]byte{39 << 1, 0x01}, bitw.Escape(rbsp)...)
}
