// Package stbl is an independent reader of the sample tables of progressive
// ISO BMFF files (ISO/IEC 14496-12 §8.6.1.2 stts, §8.6.1.3 ctts, §8.6.2 stss,
// §8.6.4 sdtp, §8.7.3 stsz, §8.7.4 stsc, §8.7.5 stco/co64) together with the
// header boxes needed to interpret them (§8.2.2 mvhd, §8.3.2 tkhd, §8.4.2 mdhd,
// §8.4.3 hdlr, §8.6.6 elst). It works on encoded bytes only and never imports
// mp4ff. Expand gives the naive per-sample expansion of the run-length tables:
// that array is the oracle of C09/C08/C10/C11.
package stbl

import (
	"encoding/binary"
	"fmt"

	"verifharness/ref/boxwalk"
)

// SttsEntry is one (sample_count, sample_delta) run.
type SttsEntry struct{ Count, Delta uint32 }

// CttsEntry is one (sample_count, sample_offset) run. Offset holds the value
// as the version says: unsigned for version 0, signed for version 1.
type CttsEntry struct {
	Count  uint32
	Offset int64
}

// StscEntry is one (first_chunk, samples_per_chunk, sample_description_index).
type StscEntry struct{ FirstChunk, SamplesPerChunk, DescID uint32 }

// ElstEntry is one edit.
type ElstEntry struct {
	SegmentDuration uint64
	MediaTime       int64
	RateInt         int16
	RateFrac        int16
}

// Tables are the raw tables of one track as found in the bytes.
type Tables struct {
	Stts         []SttsEntry
	HasCtts      bool
	CttsVersion  byte
	Ctts         []CttsEntry
	Stsc         []StscEntry
	StszUniform  uint32 // sample_size field (0 = explicit table)
	StszCount    uint32 // sample_count field
	Sizes        []uint32
	HasStco      bool
	HasCo64      bool
	ChunkOffsets []uint64
	HasStss      bool
	Stss         []uint32
	HasSdtp      bool
	Sdtp         []byte
}

// SampleInfo is one row of the naive per-sample expansion. Numbers are 1-based.
type SampleInfo struct {
	Nr           int
	DecodeTime   uint64 // sum of the deltas of all earlier samples
	Dur          uint32
	Cto          int64 // 0 when there is no ctts
	Size         uint32
	Sync         bool // stss absent: every sample is sync
	Sdtp         byte // raw sdtp byte, 0 when absent
	Chunk        int  // chunk number
	FirstInChunk int  // sample number of the first sample of that chunk
	NrInChunk    int  // number of samples in that chunk
	StscEntry    int  // 0-based index of the stsc entry describing the chunk
	DescID       uint32
	Offset       uint64 // absolute file offset of the first payload byte
}

// ChunkInfo is one chunk.
type ChunkInfo struct {
	Nr          int
	FirstSample int
	NrSamples   int
	Offset      uint64
	Size        uint64
	DescID      uint32
	StscEntry   int
}

// EntryRef locates one child of stsd in the file bytes.
type EntryRef struct {
	Type        string
	Start, Size int
}

// Track is one trak.
type Track struct {
	ID            uint32
	Handler       string // hdlr handler_type: vide, soun, ...
	Timescale     uint32
	MdhdVersion   byte
	MdhdDuration  uint64
	TkhdVersion   byte
	TkhdDuration  uint64
	HasEdts       bool
	ElstVersion   byte
	Elst          []ElstEntry
	Tables        *Tables
	Samples       []SampleInfo // nil when ExpandErr != nil
	Chunks        []ChunkInfo
	ExpandErr     error
	StsdEntries   []EntryRef
	TotalDuration uint64 // sum of all stts deltas
}

// MdatInfo locates one mdat.
type MdatInfo struct {
	Start, HdrLen, Size int
}

// PayloadStart is the offset of the first payload byte.
func (m MdatInfo) PayloadStart() int { return m.Start + m.HdrLen }

// PayloadLen is the payload length.
func (m MdatInfo) PayloadLen() int { return m.Size - m.HdrLen }

// Movie is what ParseFile extracts.
type Movie struct {
	MvhdVersion byte
	Timescale   uint32
	Duration    uint64
	NextTrackID uint32
	Tracks      []*Track
	Mdats       []MdatInfo
	TopLevel    []string // types of the top-level boxes in order
	Nodes       []*boxwalk.Node
}

type rd struct {
	b   []byte
	p   int
	bad bool
}

func (r *rd) u8() byte {
	if r.p+1 > len(r.b) {
		r.bad = true
		return 0
	}
	v := r.b[r.p]
	r.p++
	return v
}
func (r *rd) u16() uint16 {
	if r.p+2 > len(r.b) {
		r.bad = true
		r.p = len(r.b)
		return 0
	}
	v := binary.BigEndian.Uint16(r.b[r.p:])
	r.p += 2
	return v
}
func (r *rd) u32() uint32 {
	if r.p+4 > len(r.b) {
		r.bad = true
		r.p = len(r.b)
		return 0
	}
	v := binary.BigEndian.Uint32(r.b[r.p:])
	r.p += 4
	return v
}
func (r *rd) u64() uint64 {
	if r.p+8 > len(r.b) {
		r.bad = true
		r.p = len(r.b)
		return 0
	}
	v := binary.BigEndian.Uint64(r.b[r.p:])
	r.p += 8
	return v
}
func (r *rd) skip(n int) {
	if r.p+n > len(r.b) {
		r.bad = true
		r.p = len(r.b)
		return
	}
	r.p += n
}
func (r *rd) left() int { return len(r.b) - r.p }

// ParseStbl reads the tables below an stbl node.
func ParseStbl(file []byte, stblNode *boxwalk.Node) (*Tables, error) {
	t := &Tables{}
	seen := map[string]bool{}
	for _, ch := range stblNode.Children {
		p := &rd{b: ch.Payload(file)}
		switch ch.Type {
		case "stts", "ctts", "stsc", "stsz", "stco", "co64", "stss", "sdtp":
			if seen[ch.Type] {
				return nil, fmt.Errorf("duplicate %s", ch.Type)
			}
			seen[ch.Type] = true
		default:
			continue
		}
		vf := p.u32()
		version := byte(vf >> 24)
		switch ch.Type {
		case "stts":
			n := p.u32()
			if uint64(p.left()) != uint64(n)*8 {
				return nil, fmt.Errorf("stts: entry_count %d does not match payload %d", n, p.left())
			}
			for i := uint32(0); i < n; i++ {
				t.Stts = append(t.Stts, SttsEntry{p.u32(), p.u32()})
			}
		case "ctts":
			t.HasCtts = true
			t.CttsVersion = version
			n := p.u32()
			if uint64(p.left()) != uint64(n)*8 {
				return nil, fmt.Errorf("ctts: entry_count %d does not match payload %d", n, p.left())
			}
			for i := uint32(0); i < n; i++ {
				c := p.u32()
				o := p.u32()
				e := CttsEntry{Count: c, Offset: int64(o)}
				if version >= 1 {
					e.Offset = int64(int32(o))
				}
				t.Ctts = append(t.Ctts, e)
			}
		case "stsc":
			n := p.u32()
			if uint64(p.left()) != uint64(n)*12 {
				return nil, fmt.Errorf("stsc: entry_count %d does not match payload %d", n, p.left())
			}
			for i := uint32(0); i < n; i++ {
				t.Stsc = append(t.Stsc, StscEntry{p.u32(), p.u32(), p.u32()})
			}
		case "stsz":
			t.StszUniform = p.u32()
			t.StszCount = p.u32()
			if t.StszUniform == 0 {
				if uint64(p.left()) != uint64(t.StszCount)*4 {
					return nil, fmt.Errorf("stsz: sample_count %d does not match payload %d", t.StszCount, p.left())
				}
				t.Sizes = make([]uint32, t.StszCount)
				for i := range t.Sizes {
					t.Sizes[i] = p.u32()
				}
			} else if p.left() != 0 {
				return nil, fmt.Errorf("stsz: uniform size with %d trailing bytes", p.left())
			}
		case "stco":
			t.HasStco = true
			n := p.u32()
			if uint64(p.left()) != uint64(n)*4 {
				return nil, fmt.Errorf("stco: entry_count %d does not match payload %d", n, p.left())
			}
			for i := uint32(0); i < n; i++ {
				t.ChunkOffsets = append(t.ChunkOffsets, uint64(p.u32()))
			}
		case "co64":
			t.HasCo64 = true
			n := p.u32()
			if uint64(p.left()) != uint64(n)*8 {
				return nil, fmt.Errorf("co64: entry_count %d does not match payload %d", n, p.left())
			}
			for i := uint32(0); i < n; i++ {
				t.ChunkOffsets = append(t.ChunkOffsets, p.u64())
			}
		case "stss":
			t.HasStss = true
			n := p.u32()
			if uint64(p.left()) != uint64(n)*4 {
				return nil, fmt.Errorf("stss: entry_count %d does not match payload %d", n, p.left())
			}
			for i := uint32(0); i < n; i++ {
				t.Stss = append(t.Stss, p.u32())
			}
		case "sdtp":
			t.HasSdtp = true
			t.Sdtp = append([]byte{}, p.b[p.p:]...)
			p.p = len(p.b)
		}
		if p.bad {
			return nil, fmt.Errorf("%s: truncated", ch.Type)
		}
	}
	for _, need := range []string{"stts", "stsc", "stsz"} {
		if !seen[need] {
			return nil, fmt.Errorf("stbl without %s", need)
		}
	}
	if t.HasStco && t.HasCo64 {
		return nil, fmt.Errorf("stbl with both stco and co64")
	}
	if !t.HasStco && !t.HasCo64 {
		return nil, fmt.Errorf("stbl without stco/co64")
	}
	return t, nil
}

// NrSamples is the sample count of the stsz box.
func (t *Tables) NrSamples() int { return int(t.StszCount) }

// Expand computes the naive per-sample expansion of the tables. It fails when
// the tables are not consistent with each other (run lengths that do not sum to
// the stsz sample count, chunks that do not hold exactly all samples, ...).
func (t *Tables) Expand() ([]SampleInfo, []ChunkInfo, error) {
	n := t.NrSamples()
	s := make([]SampleInfo, n)
	for i := range s {
		s[i].Nr = i + 1
		s[i].Sync = !t.HasStss
	}
	// stts
	k := 0
	var dt uint64
	for _, e := range t.Stts {
		for j := uint32(0); j < e.Count; j++ {
			if k >= n {
				return nil, nil, fmt.Errorf("stts describes more than the %d samples of stsz", n)
			}
			s[k].DecodeTime = dt
			s[k].Dur = e.Delta
			dt += uint64(e.Delta)
			k++
		}
	}
	if k != n {
		return nil, nil, fmt.Errorf("stts describes %d samples, stsz %d", k, n)
	}
	// ctts
	if t.HasCtts {
		k = 0
		for _, e := range t.Ctts {
			for j := uint32(0); j < e.Count; j++ {
				if k >= n {
					return nil, nil, fmt.Errorf("ctts describes more than the %d samples of stsz", n)
				}
				s[k].Cto = e.Offset
				k++
			}
		}
		if k != n {
			return nil, nil, fmt.Errorf("ctts describes %d samples, stsz %d", k, n)
		}
	}
	// stsz
	for i := range s {
		if t.StszUniform != 0 {
			s[i].Size = t.StszUniform
		} else {
			s[i].Size = t.Sizes[i]
		}
	}
	// stss
	if t.HasStss {
		prev := uint32(0)
		for _, nr := range t.Stss {
			if nr <= prev {
				return nil, nil, fmt.Errorf("stss not strictly increasing at %d", nr)
			}
			prev = nr
			if nr == 0 || int(nr) > n {
				return nil, nil, fmt.Errorf("stss sample number %d outside 1..%d", nr, n)
			}
			s[nr-1].Sync = true
		}
	}
	// sdtp
	if t.HasSdtp {
		if len(t.Sdtp) != n {
			return nil, nil, fmt.Errorf("sdtp has %d entries, stsz %d samples", len(t.Sdtp), n)
		}
		for i := range s {
			s[i].Sdtp = t.Sdtp[i]
		}
	}
	// stsc + chunk offsets
	nChunks := len(t.ChunkOffsets)
	chunks := make([]ChunkInfo, 0, nChunks)
	k = 0
	for ei, e := range t.Stsc {
		if e.FirstChunk == 0 {
			return nil, nil, fmt.Errorf("stsc entry %d has first_chunk 0", ei)
		}
		if ei == 0 && e.FirstChunk != 1 {
			return nil, nil, fmt.Errorf("first stsc entry has first_chunk %d", e.FirstChunk)
		}
		last := nChunks
		if ei+1 < len(t.Stsc) {
			nf := t.Stsc[ei+1].FirstChunk
			if nf < e.FirstChunk {
				return nil, nil, fmt.Errorf("stsc first_chunk decreasing at entry %d", ei+1)
			}
			last = int(nf) - 1
		}
		if last > nChunks {
			return nil, nil, fmt.Errorf("stsc entry %d runs to chunk %d, only %d chunk offsets", ei, last, nChunks)
		}
		for c := int(e.FirstChunk); c <= last; c++ {
			if e.SamplesPerChunk == 0 {
				return nil, nil, fmt.Errorf("stsc entry %d has samples_per_chunk 0", ei)
			}
			ci := ChunkInfo{Nr: c, FirstSample: k + 1, NrSamples: int(e.SamplesPerChunk), Offset: t.ChunkOffsets[c-1],
				DescID: e.DescID, StscEntry: ei}
			off := ci.Offset
			for j := 0; j < ci.NrSamples; j++ {
				if k >= n {
					return nil, nil, fmt.Errorf("chunks hold more than the %d samples of stsz (chunk %d)", n, c)
				}
				s[k].Chunk = c
				s[k].FirstInChunk = ci.FirstSample
				s[k].NrInChunk = ci.NrSamples
				s[k].StscEntry = ei
				s[k].DescID = e.DescID
				s[k].Offset = off
				off += uint64(s[k].Size)
				k++
			}
			ci.Size = off - ci.Offset
			chunks = append(chunks, ci)
		}
	}
	if len(chunks) != nChunks {
		return nil, nil, fmt.Errorf("stsc describes %d chunks, %d chunk offsets", len(chunks), nChunks)
	}
	if k != n {
		return nil, nil, fmt.Errorf("chunks hold %d samples, stsz %d", k, n)
	}
	return s, chunks, nil
}

// ParseFile reads a progressive file.
func ParseFile(file []byte) (*Movie, error) {
	nodes, err := boxwalk.Walk(file)
	if err != nil {
		return nil, fmt.Errorf("walk: %w", err)
	}
	m := &Movie{Nodes: nodes}
	var moov *boxwalk.Node
	for _, n := range nodes {
		m.TopLevel = append(m.TopLevel, n.Type)
		switch n.Type {
		case "moov":
			if moov != nil {
				return nil, fmt.Errorf("two moov boxes")
			}
			moov = n
		case "mdat":
			m.Mdats = append(m.Mdats, MdatInfo{Start: n.Start, HdrLen: n.HdrLen, Size: n.Size})
		}
	}
	if moov == nil {
		return nil, fmt.Errorf("no moov")
	}
	mvhd := moov.Child("mvhd")
	if mvhd == nil {
		return nil, fmt.Errorf("no mvhd")
	}
	{
		p := &rd{b: mvhd.Payload(file)}
		v := byte(p.u32() >> 24)
		m.MvhdVersion = v
		if v == 1 {
			p.skip(16)
			m.Timescale = p.u32()
			m.Duration = p.u64()
		} else {
			p.skip(8)
			m.Timescale = p.u32()
			m.Duration = uint64(p.u32())
		}
		p.skip(4 + 2 + 2 + 8 + 36 + 24)
		m.NextTrackID = p.u32()
		if p.bad {
			return nil, fmt.Errorf("mvhd truncated")
		}
	}
	for _, tn := range moov.Children {
		if tn.Type != "trak" {
			continue
		}
		tr, err := parseTrak(file, tn)
		if err != nil {
			return nil, fmt.Errorf("trak %d: %w", len(m.Tracks)+1, err)
		}
		m.Tracks = append(m.Tracks, tr)
	}
	return m, nil
}

func parseTrak(file []byte, tn *boxwalk.Node) (*Track, error) {
	tr := &Track{}
	tkhd := tn.Child("tkhd")
	if tkhd == nil {
		return nil, fmt.Errorf("no tkhd")
	}
	{
		p := &rd{b: tkhd.Payload(file)}
		v := byte(p.u32() >> 24)
		tr.TkhdVersion = v
		if v == 1 {
			p.skip(16)
			tr.ID = p.u32()
			p.skip(4)
			tr.TkhdDuration = p.u64()
		} else {
			p.skip(8)
			tr.ID = p.u32()
			p.skip(4)
			tr.TkhdDuration = uint64(p.u32())
		}
		if p.bad {
			return nil, fmt.Errorf("tkhd truncated")
		}
	}
	if edts := tn.Child("edts"); edts != nil {
		tr.HasEdts = true
		if elst := edts.Child("elst"); elst != nil {
			p := &rd{b: elst.Payload(file)}
			v := byte(p.u32() >> 24)
			tr.ElstVersion = v
			n := p.u32()
			for i := uint32(0); i < n && !p.bad; i++ {
				var e ElstEntry
				if v == 1 {
					e.SegmentDuration = p.u64()
					e.MediaTime = int64(p.u64())
				} else {
					e.SegmentDuration = uint64(p.u32())
					e.MediaTime = int64(int32(p.u32()))
				}
				e.RateInt = int16(p.u16())
				e.RateFrac = int16(p.u16())
				tr.Elst = append(tr.Elst, e)
			}
			if p.bad || p.left() != 0 {
				return nil, fmt.Errorf("elst size mismatch")
			}
		}
	}
	mdhd := tn.Descend("mdia", "mdhd")
	if mdhd == nil {
		return nil, fmt.Errorf("no mdhd")
	}
	{
		p := &rd{b: mdhd.Payload(file)}
		v := byte(p.u32() >> 24)
		tr.MdhdVersion = v
		if v == 1 {
			p.skip(16)
			tr.Timescale = p.u32()
			tr.MdhdDuration = p.u64()
		} else {
			p.skip(8)
			tr.Timescale = p.u32()
			tr.MdhdDuration = uint64(p.u32())
		}
		if p.bad {
			return nil, fmt.Errorf("mdhd truncated")
		}
	}
	if hdlr := tn.Descend("mdia", "hdlr"); hdlr != nil {
		p := hdlr.Payload(file)
		if len(p) >= 12 {
			tr.Handler = string(p[8:12])
		}
	}
	stblNode := tn.Descend("mdia", "minf", "stbl")
	if stblNode == nil {
		return nil, fmt.Errorf("no stbl")
	}
	if stsd := stblNode.Child("stsd"); stsd != nil {
		for _, e := range stsd.Children {
			tr.StsdEntries = append(tr.StsdEntries, EntryRef{Type: e.Type, Start: e.Start, Size: e.Size})
		}
	}
	t, err := ParseStbl(file, stblNode)
	if err != nil {
		return nil, err
	}
	tr.Tables = t
	tr.Samples, tr.Chunks, tr.ExpandErr = t.Expand()
	for _, e := range t.Stts {
		tr.TotalDuration += uint64(e.Count) * uint64(e.Delta)
	}
	return tr, nil
}

// SampleBytes returns the payload of sample nr (1-based) or nil when its
// range lies outside the file.
func (tr *Track) SampleBytes(file []byte, nr int) []byte {
	if nr < 1 || nr > len(tr.Samples) {
		return nil
	}
	s := tr.Samples[nr-1]
	end := s.Offset + uint64(s.Size)
	if end > uint64(len(file)) || end < s.Offset {
		return nil
	}
	return file[s.Offset:end]
}

// IntervalBytes concatenates the payloads of samples a..b (1-based,
// inclusive). ok is false when a range lies outside the file.
func (tr *Track) IntervalBytes(file []byte, a, b int) (out []byte, ok bool) {
	for nr := a; nr <= b; nr++ {
		if nr < 1 || nr > len(tr.Samples) {
			return nil, false
		}
		s := tr.Samples[nr-1]
		end := s.Offset + uint64(s.Size)
		if end > uint64(len(file)) || end < s.Offset {
			return nil, false
		}
		out = append(out, file[s.Offset:end]...)
	}
	return out, true
}

// Range is a byte range of the file.
type Range struct{ Offset, Size uint64 }

// IntervalRanges gives the byte ranges of samples a..b in file order of the
// track's samples, with adjacent ranges coalesced and empty ranges dropped.
func (tr *Track) IntervalRanges(a, b int) []Range {
	var out []Range
	for nr := a; nr <= b && nr >= 1 && nr <= len(tr.Samples); nr++ {
		s := tr.Samples[nr-1]
		out = append(out, Range{s.Offset, uint64(s.Size)})
	}
	return Coalesce(out)
}

// Coalesce merges ranges that touch (next.Offset == prev.Offset+prev.Size)
// and drops empty ones; order is preserved.
func Coalesce(in []Range) []Range {
	var out []Range
	for _, r := range in {
		if r.Size == 0 {
			continue
		}
		if n := len(out); n > 0 && out[n-1].Offset+out[n-1].Size == r.Offset {
			out[n-1].Size += r.Size
			continue
		}
		out = append(out, r)
	}
	return out
}

// HasInteriorZeroDelta tells whether a sample other than the last one has
// duration 0 (ISO/IEC 14496-12 allows a zero delta only for the last sample).
func (tr *Track) HasInteriorZeroDelta() bool {
	for i := 0; i+1 < len(tr.Samples); i++ {
		if tr.Samples[i].Dur == 0 {
			return true
		}
	}
	return false
}
