// Package frag is an independent reader of the movie-fragment structures of
// ISO/IEC 14496-12 (mfhd 8.8.5, tfhd 8.8.7, trun 8.8.8, tfdt 8.8.12, trex
// 8.8.3, mehd 8.8.2, sidx 8.16.3, tfra 8.8.10, mfro 8.8.11) working on
// *encoded bytes*, plus the naive per-sample expansion of a movie fragment
// (8.8.7/8.8.8 semantics: data offsets, default resolution trun > tfhd >
// trex, first_sample_flags, decode times). It never imports mp4ff; box
// boundaries come from ref/boxwalk.
package frag

import (
	"encoding/binary"
	"fmt"

	"verifharness/ref/boxwalk"
)

// tfhd flags
const (
	TfhdBaseDataOffset  = 0x000001
	TfhdSampleDescIndex = 0x000002
	TfhdDefaultDuration = 0x000008
	TfhdDefaultSize     = 0x000010
	TfhdDefaultFlags    = 0x000020
	TfhdDurationIsEmpty = 0x010000
	TfhdDefaultBaseMoof = 0x020000
)

// trun flags
const (
	TrunDataOffset       = 0x000001
	TrunFirstSampleFlags = 0x000004
	TrunDuration         = 0x000100
	TrunSize             = 0x000200
	TrunFlags            = 0x000400
	TrunCto              = 0x000800
)

type rd struct {
	b   []byte
	p   int
	err error
}

func (r *rd) need(n int) bool {
	if r.err != nil {
		return false
	}
	if n < 0 || r.p+n > len(r.b) {
		r.err = fmt.Errorf("short box: need %d bytes at %d of %d", n, r.p, len(r.b))
		return false
	}
	return true
}
func (r *rd) u8() uint8 {
	if !r.need(1) {
		return 0
	}
	v := r.b[r.p]
	r.p++
	return v
}
func (r *rd) u16() uint16 {
	if !r.need(2) {
		return 0
	}
	v := binary.BigEndian.Uint16(r.b[r.p:])
	r.p += 2
	return v
}
func (r *rd) u24() uint32 {
	if !r.need(3) {
		return 0
	}
	v := uint32(r.b[r.p])<<16 | uint32(r.b[r.p+1])<<8 | uint32(r.b[r.p+2])
	r.p += 3
	return v
}
func (r *rd) u32() uint32 {
	if !r.need(4) {
		return 0
	}
	v := binary.BigEndian.Uint32(r.b[r.p:])
	r.p += 4
	return v
}
func (r *rd) u64() uint64 {
	if !r.need(8) {
		return 0
	}
	v := binary.BigEndian.Uint64(r.b[r.p:])
	r.p += 8
	return v
}
func (r *rd) un(n int) uint32 { // n bytes, 1..4
	switch n {
	case 1:
		return uint32(r.u8())
	case 2:
		return uint32(r.u16())
	case 3:
		return r.u24()
	}
	return r.u32()
}
func (r *rd) done(what string) error {
	if r.err != nil {
		return fmt.Errorf("%s: %v", what, r.err)
	}
	if r.p != len(r.b) {
		return fmt.Errorf("%s: %d surplus bytes after the last syntax element", what, len(r.b)-r.p)
	}
	return nil
}

// Mfhd is a MovieFragmentHeaderBox.
type Mfhd struct{ SequenceNumber uint32 }

// ParseMfhd parses the payload (after the 8/16-byte box header).
func ParseMfhd(p []byte) (Mfhd, error) {
	r := &rd{b: p}
	r.u32()
	m := Mfhd{SequenceNumber: r.u32()}
	return m, r.done("mfhd")
}

// Tfhd is a TrackFragmentHeaderBox.
type Tfhd struct {
	Version                byte
	Flags                  uint32
	TrackID                uint32
	BaseDataOffset         uint64
	SampleDescriptionIndex uint32
	DefaultSampleDuration  uint32
	DefaultSampleSize      uint32
	DefaultSampleFlags     uint32
}

// Has tells whether a tf_flags bit is set.
func (t Tfhd) Has(bit uint32) bool { return t.Flags&bit != 0 }

// ParseTfhd parses a tfhd payload.
func ParseTfhd(p []byte) (Tfhd, error) {
	r := &rd{b: p}
	vf := r.u32()
	t := Tfhd{Version: byte(vf >> 24), Flags: vf & 0xffffff}
	t.TrackID = r.u32()
	if t.Has(TfhdBaseDataOffset) {
		t.BaseDataOffset = r.u64()
	}
	if t.Has(TfhdSampleDescIndex) {
		t.SampleDescriptionIndex = r.u32()
	}
	if t.Has(TfhdDefaultDuration) {
		t.DefaultSampleDuration = r.u32()
	}
	if t.Has(TfhdDefaultSize) {
		t.DefaultSampleSize = r.u32()
	}
	if t.Has(TfhdDefaultFlags) {
		t.DefaultSampleFlags = r.u32()
	}
	return t, r.done("tfhd")
}

// Tfdt is a TrackFragmentBaseMediaDecodeTimeBox.
type Tfdt struct {
	Version             byte
	BaseMediaDecodeTime uint64
}

// ParseTfdt parses a tfdt payload.
func ParseTfdt(p []byte) (Tfdt, error) {
	r := &rd{b: p}
	vf := r.u32()
	t := Tfdt{Version: byte(vf >> 24)}
	if t.Version == 1 {
		t.BaseMediaDecodeTime = r.u64()
	} else {
		t.BaseMediaDecodeTime = uint64(r.u32())
	}
	return t, r.done("tfdt")
}

// TrunEntry is one sample row of a trun; only the fields whose flag is set
// are meaningful.
type TrunEntry struct {
	Duration uint32
	Size     uint32
	Flags    uint32
	Cto      int64 // version 0: unsigned 32, version 1: signed 32
}

// Trun is a TrackRunBox.
type Trun struct {
	Version          byte
	Flags            uint32
	SampleCount      uint32
	DataOffset       int32
	FirstSampleFlags uint32
	Entries          []TrunEntry
}

// Has tells whether a tr_flags bit is set.
func (t Trun) Has(bit uint32) bool { return t.Flags&bit != 0 }

// ParseTrun parses a trun payload.
func ParseTrun(p []byte) (Trun, error) {
	r := &rd{b: p}
	vf := r.u32()
	t := Trun{Version: byte(vf >> 24), Flags: vf & 0xffffff}
	t.SampleCount = r.u32()
	if t.Has(TrunDataOffset) {
		t.DataOffset = int32(r.u32())
	}
	if t.Has(TrunFirstSampleFlags) {
		t.FirstSampleFlags = r.u32()
	}
	per := 0
	for _, f := range []uint32{TrunDuration, TrunSize, TrunFlags, TrunCto} {
		if t.Has(f) {
			per += 4
		}
	}
	if r.err == nil && uint64(per)*uint64(t.SampleCount) != uint64(len(p)-r.p) {
		return t, fmt.Errorf("trun: sample_count %d x %d bytes does not fill the remaining %d bytes", t.SampleCount, per, len(p)-r.p)
	}
	for i := uint32(0); i < t.SampleCount && r.err == nil; i++ {
		var e TrunEntry
		if t.Has(TrunDuration) {
			e.Duration = r.u32()
		}
		if t.Has(TrunSize) {
			e.Size = r.u32()
		}
		if t.Has(TrunFlags) {
			e.Flags = r.u32()
		}
		if t.Has(TrunCto) {
			v := r.u32()
			if t.Version == 0 {
				e.Cto = int64(v)
			} else {
				e.Cto = int64(int32(v))
			}
		}
		t.Entries = append(t.Entries, e)
	}
	return t, r.done("trun")
}

// Trex is a TrackExtendsBox.
type Trex struct {
	TrackID                       uint32
	DefaultSampleDescriptionIndex uint32
	DefaultSampleDuration         uint32
	DefaultSampleSize             uint32
	DefaultSampleFlags            uint32
}

// ParseTrex parses a trex payload.
func ParseTrex(p []byte) (Trex, error) {
	r := &rd{b: p}
	r.u32()
	t := Trex{TrackID: r.u32(), DefaultSampleDescriptionIndex: r.u32(), DefaultSampleDuration: r.u32(),
		DefaultSampleSize: r.u32(), DefaultSampleFlags: r.u32()}
	return t, r.done("trex")
}

// Mehd is a MovieExtendsHeaderBox.
type Mehd struct {
	Version          byte
	FragmentDuration uint64
}

// ParseMehd parses a mehd payload.
func ParseMehd(p []byte) (Mehd, error) {
	r := &rd{b: p}
	vf := r.u32()
	m := Mehd{Version: byte(vf >> 24)}
	if m.Version == 1 {
		m.FragmentDuration = r.u64()
	} else {
		m.FragmentDuration = uint64(r.u32())
	}
	return m, r.done("mehd")
}

// SidxRef is one reference of a SegmentIndexBox.
type SidxRef struct {
	Type          uint8 // 1 = reference to another sidx
	Size          uint32
	Duration      uint32
	StartsWithSAP uint8
	SAPType       uint8
	SAPDeltaTime  uint32
}

// Sidx is a SegmentIndexBox. Start/End are filled by ParseSidxNode.
type Sidx struct {
	Version                  byte
	ReferenceID              uint32
	Timescale                uint32
	EarliestPresentationTime uint64
	FirstOffset              uint64
	Reserved                 uint16
	Refs                     []SidxRef
	Start, End               int // byte range of the box in the walked buffer
}

// Anchor is the first byte after the box plus first_offset: where the first
// referenced item starts (8.16.3.3).
func (s Sidx) Anchor() uint64 { return uint64(s.End) + s.FirstOffset }

// ParseSidx parses a sidx payload.
func ParseSidx(p []byte) (Sidx, error) {
	r := &rd{b: p}
	vf := r.u32()
	s := Sidx{Version: byte(vf >> 24)}
	s.ReferenceID = r.u32()
	s.Timescale = r.u32()
	if s.Version == 0 {
		s.EarliestPresentationTime = uint64(r.u32())
		s.FirstOffset = uint64(r.u32())
	} else {
		s.EarliestPresentationTime = r.u64()
		s.FirstOffset = r.u64()
	}
	s.Reserved = r.u16()
	n := int(r.u16())
	for i := 0; i < n && r.err == nil; i++ {
		a, d, c := r.u32(), r.u32(), r.u32()
		s.Refs = append(s.Refs, SidxRef{Type: uint8(a >> 31), Size: a & 0x7fffffff, Duration: d,
			StartsWithSAP: uint8(c >> 31), SAPType: uint8(c>>28) & 7, SAPDeltaTime: c & 0x0fffffff})
	}
	return s, r.done("sidx")
}

// ParseSidxNode parses the sidx box n of buffer b and records its position.
func ParseSidxNode(b []byte, n *boxwalk.Node) (Sidx, error) {
	s, err := ParseSidx(n.Payload(b))
	s.Start, s.End = n.Start, n.End()
	return s, err
}

// TfraEntry is one entry of a TrackFragmentRandomAccessBox.
type TfraEntry struct {
	Time         uint64
	MoofOffset   uint64
	TrafNumber   uint32
	TrunNumber   uint32
	SampleNumber uint32
}

// Tfra is a TrackFragmentRandomAccessBox.
type Tfra struct {
	Version                                                         byte
	TrackID                                                         uint32
	LengthSizeOfTrafNum, LengthSizeOfTrunNum, LengthSizeOfSampleNum byte
	Entries                                                         []TfraEntry
}

// ParseTfra parses a tfra payload.
func ParseTfra(p []byte) (Tfra, error) {
	r := &rd{b: p}
	vf := r.u32()
	t := Tfra{Version: byte(vf >> 24)}
	t.TrackID = r.u32()
	l := r.u32()
	t.LengthSizeOfTrafNum, t.LengthSizeOfTrunNum, t.LengthSizeOfSampleNum = byte(l>>4)&3, byte(l>>2)&3, byte(l)&3
	n := r.u32()
	for i := uint32(0); i < n && r.err == nil; i++ {
		var e TfraEntry
		if t.Version == 1 {
			e.Time, e.MoofOffset = r.u64(), r.u64()
		} else {
			e.Time, e.MoofOffset = uint64(r.u32()), uint64(r.u32())
		}
		e.TrafNumber = r.un(int(t.LengthSizeOfTrafNum) + 1)
		e.TrunNumber = r.un(int(t.LengthSizeOfTrunNum) + 1)
		e.SampleNumber = r.un(int(t.LengthSizeOfSampleNum) + 1)
		t.Entries = append(t.Entries, e)
	}
	return t, r.done("tfra")
}

// Mfro is a MovieFragmentRandomAccessOffsetBox.
type Mfro struct{ ParentSize uint32 }

// ParseMfro parses a mfro payload.
func ParseMfro(p []byte) (Mfro, error) {
	r := &rd{b: p}
	r.u32()
	m := Mfro{ParentSize: r.u32()}
	return m, r.done("mfro")
}

// ---------------------------------------------------------------------------
// init segment facts needed for the expansion

// Track describes one trak of the moov.
type Track struct {
	ID        uint32
	Timescale uint32
	Handler   string // hdlr handler_type
	Trex      *Trex  // nil when mvex has no trex for the track
}

// Init holds what the expansion needs from a moov.
type Init struct {
	Tracks []Track // in moov order
	Mehd   *Mehd
}

// TrackByID returns the track or nil.
func (in *Init) TrackByID(id uint32) *Track {
	if in == nil {
		return nil
	}
	for i := range in.Tracks {
		if in.Tracks[i].ID == id {
			return &in.Tracks[i]
		}
	}
	return nil
}

// ReferenceTrack returns the track a segment index is normally computed for:
// the first video track, else the first audio track, else the first track.
func (in *Init) ReferenceTrack() *Track {
	for _, h := range []string{"vide", "soun"} {
		for i := range in.Tracks {
			if in.Tracks[i].Handler == h {
				return &in.Tracks[i]
			}
		}
	}
	if len(in.Tracks) > 0 {
		return &in.Tracks[0]
	}
	return nil
}

// ParseInit reads track ids (tkhd), timescales (mdhd), handler types (hdlr)
// and trex defaults from the moov node of buffer b.
func ParseInit(b []byte, moov *boxwalk.Node) (*Init, error) {
	if moov == nil || moov.Type != "moov" {
		return nil, fmt.Errorf("no moov")
	}
	in := &Init{}
	for _, trak := range moov.Children {
		if trak.Type != "trak" {
			continue
		}
		var t Track
		tkhd := trak.Child("tkhd")
		if tkhd == nil {
			return nil, fmt.Errorf("trak without tkhd")
		}
		p := tkhd.Payload(b)
		if len(p) < 4 {
			return nil, fmt.Errorf("short tkhd")
		}
		off := 4 + 8 // version/flags + creation + modification (v0)
		if p[0] == 1 {
			off = 4 + 16
		}
		if len(p) < off+4 {
			return nil, fmt.Errorf("short tkhd")
		}
		t.ID = binary.BigEndian.Uint32(p[off:])
		if mdhd := trak.Descend("mdia", "mdhd"); mdhd != nil {
			p := mdhd.Payload(b)
			off := 4 + 8
			if len(p) > 0 && p[0] == 1 {
				off = 4 + 16
			}
			if len(p) >= off+4 {
				t.Timescale = binary.BigEndian.Uint32(p[off:])
			}
		}
		if hdlr := trak.Descend("mdia", "hdlr"); hdlr != nil {
			p := hdlr.Payload(b)
			if len(p) >= 12 {
				t.Handler = string(p[8:12])
			}
		}
		in.Tracks = append(in.Tracks, t)
	}
	if mvex := moov.Child("mvex"); mvex != nil {
		for _, c := range mvex.Children {
			switch c.Type {
			case "trex":
				tx, err := ParseTrex(c.Payload(b))
				if err != nil {
					return nil, err
				}
				if t := in.TrackByID(tx.TrackID); t != nil && t.Trex == nil {
					cp := tx
					t.Trex = &cp
				}
			case "mehd":
				m, err := ParseMehd(c.Payload(b))
				if err != nil {
					return nil, err
				}
				in.Mehd = &m
			}
		}
	}
	return in, nil
}

// ---------------------------------------------------------------------------
// expansion

// Sample is one expanded sample.
type Sample struct {
	TrackID    uint32
	Data       []byte // aliases the walked buffer
	Offset     int    // absolute offset of the first data byte
	Size       uint32
	Duration   uint32
	Flags      uint32
	Cto        int64
	DecodeTime uint64
	MoofIndex  int // ordinal of the moof in the file
	TrafIndex  int // ordinal of the traf in its moof
	TrunIndex  int // ordinal of the trun in its traf
	Index      int // ordinal of the sample in its trun
}

// TrafInfo is the parsed header part of one traf plus its expanded samples.
type TrafInfo struct {
	Tfhd    Tfhd
	Tfdt    *Tfdt
	Truns   []Trun
	Samples []Sample
}

// MoofInfo is one expanded movie fragment.
type MoofInfo struct {
	Start, End int // the moof box
	Mfhd       Mfhd
	Trafs      []TrafInfo
}

// ExpandMoof expands the movie fragment whose moof box is node moof of buffer
// b. in may be nil (no trex defaults). nextTime, when non-nil, carries the end
// time of each track from the previous fragments: it is used when a traf has
// no tfdt and is updated.
func ExpandMoof(b []byte, moof *boxwalk.Node, in *Init, moofIndex int, nextTime map[uint32]uint64) (*MoofInfo, error) {
	mi := &MoofInfo{Start: moof.Start, End: moof.End()}
	if h := moof.Child("mfhd"); h != nil {
		m, err := ParseMfhd(h.Payload(b))
		if err != nil {
			return nil, err
		}
		mi.Mfhd = m
	}
	prevTrafDataEnd := -1
	trafIdx := 0
	for _, traf := range moof.Children {
		if traf.Type != "traf" {
			continue
		}
		var ti TrafInfo
		h := traf.Child("tfhd")
		if h == nil {
			return nil, fmt.Errorf("traf without tfhd")
		}
		var err error
		if ti.Tfhd, err = ParseTfhd(h.Payload(b)); err != nil {
			return nil, err
		}
		if d := traf.Child("tfdt"); d != nil {
			t, err := ParseTfdt(d.Payload(b))
			if err != nil {
				return nil, err
			}
			ti.Tfdt = &t
		}
		var trex *Trex
		if tr := in.TrackByID(ti.Tfhd.TrackID); tr != nil {
			trex = tr.Trex
		}
		// 8.8.7.1 base data offset
		var base int64
		switch {
		case ti.Tfhd.Has(TfhdBaseDataOffset):
			base = int64(ti.Tfhd.BaseDataOffset)
		case ti.Tfhd.Has(TfhdDefaultBaseMoof):
			base = int64(moof.Start)
		case trafIdx == 0 || prevTrafDataEnd < 0:
			base = int64(moof.Start)
		default:
			base = int64(prevTrafDataEnd)
		}
		var t uint64
		if ti.Tfdt != nil {
			t = ti.Tfdt.BaseMediaDecodeTime
		} else if nextTime != nil {
			t = nextTime[ti.Tfhd.TrackID]
		}
		pos := base // where the next run's data starts when it has no data_offset
		trunIdx := 0
		for _, c := range traf.Children {
			if c.Type != "trun" {
				continue
			}
			tr, err := ParseTrun(c.Payload(b))
			if err != nil {
				return nil, err
			}
			ti.Truns = append(ti.Truns, tr)
			if tr.Has(TrunDataOffset) {
				pos = base + int64(tr.DataOffset)
			}
			for i, e := range tr.Entries {
				s := Sample{TrackID: ti.Tfhd.TrackID, MoofIndex: moofIndex, TrafIndex: trafIdx, TrunIndex: trunIdx, Index: i, DecodeTime: t}
				// duration
				switch {
				case tr.Has(TrunDuration):
					s.Duration = e.Duration
				case ti.Tfhd.Has(TfhdDefaultDuration):
					s.Duration = ti.Tfhd.DefaultSampleDuration
				case trex != nil:
					s.Duration = trex.DefaultSampleDuration
				}
				switch {
				case tr.Has(TrunSize):
					s.Size = e.Size
				case ti.Tfhd.Has(TfhdDefaultSize):
					s.Size = ti.Tfhd.DefaultSampleSize
				case trex != nil:
					s.Size = trex.DefaultSampleSize
				}
				switch {
				case tr.Has(TrunFlags):
					s.Flags = e.Flags
				case i == 0 && tr.Has(TrunFirstSampleFlags):
					s.Flags = tr.FirstSampleFlags
				case ti.Tfhd.Has(TfhdDefaultFlags):
					s.Flags = ti.Tfhd.DefaultSampleFlags
				case trex != nil:
					s.Flags = trex.DefaultSampleFlags
				}
				if tr.Has(TrunCto) {
					s.Cto = e.Cto
				}
				if pos < 0 || pos+int64(s.Size) > int64(len(b)) {
					return nil, fmt.Errorf("moof %d traf %d trun %d sample %d: data range [%d,%d) outside the file (%d bytes)",
						moofIndex, trafIdx, trunIdx, i, pos, pos+int64(s.Size), len(b))
				}
				s.Offset = int(pos)
				s.Data = b[pos : pos+int64(s.Size)]
				pos += int64(s.Size)
				t += uint64(s.Duration)
				ti.Samples = append(ti.Samples, s)
			}
			trunIdx++
		}
		if nextTime != nil {
			nextTime[ti.Tfhd.TrackID] = t
		}
		prevTrafDataEnd = int(pos)
		mi.Trafs = append(mi.Trafs, ti)
		trafIdx++
	}
	return mi, nil
}

// File is the expansion of a whole fragmented file.
type File struct {
	Top   []*boxwalk.Node
	Init  *Init // nil when the buffer has no moov
	Moofs []*MoofInfo
}

// ExpandFile walks b and expands every movie fragment. If init is nil the
// moov found in b (if any) supplies the trex defaults.
func ExpandFile(b []byte, init *Init) (*File, error) {
	top, err := boxwalk.Walk(b)
	if err != nil {
		return nil, err
	}
	f := &File{Top: top, Init: init}
	if f.Init == nil {
		for _, n := range top {
			if n.Type == "moov" {
				if f.Init, err = ParseInit(b, n); err != nil {
					return nil, err
				}
				break
			}
		}
	}
	next := map[uint32]uint64{}
	for _, n := range top {
		if n.Type != "moof" {
			continue
		}
		mi, err := ExpandMoof(b, n, f.Init, len(f.Moofs), next)
		if err != nil {
			return nil, err
		}
		f.Moofs = append(f.Moofs, mi)
	}
	return f, nil
}

// TrackSamples concatenates, over all fragments in file order, the samples of
// one track.
func (f *File) TrackSamples(trackID uint32) []Sample {
	var out []Sample
	for _, m := range f.Moofs {
		out = append(out, m.TrackSamples(trackID)...)
	}
	return out
}

// TrackSamples returns the samples of one track in this fragment (all trafs
// with that track id, in order).
func (m *MoofInfo) TrackSamples(trackID uint32) []Sample {
	var out []Sample
	for _, t := range m.Trafs {
		if t.Tfhd.TrackID == trackID {
			out = append(out, t.Samples...)
		}
	}
	return out
}

// TrackDuration sums the sample durations of one track in this fragment.
func (m *MoofInfo) TrackDuration(trackID uint32) uint64 {
	var d uint64
	for _, s := range m.TrackSamples(trackID) {
		d += uint64(s.Duration)
	}
	return d
}
