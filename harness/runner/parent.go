package runner

import (
	"bufio"
	"bytes"
	"crypto/sha256"
	"encoding/hex"
	"encoding/json"
	"fmt"
	"os"
	"os/exec"
	"path/filepath"
	"sort"
	"strconv"
	"strings"
	"sync"
	"syscall"
	"time"
)

// Agg is the aggregated result of a run (parent side).
type Agg struct {
	Env        *Env
	Prop       *Prop
	Evals      int64
	NumCases   int
	Counters   map[string]int64
	Seen       map[string]map[string]int64
	Hashes     map[uint64]struct{}
	Samples    []json.RawMessage
	Incon      map[string]int64
	Maxes      map[string]int64
	Viol       []Violation
	Notes      []string               // COVERAGE-NOTE lines
	Extra      map[string]interface{} // extra evidence coverage keys
	HarnessErr []string
	Nothing    string // non-empty: the monitor observed nothing (exit 2) and why
}

func newAgg(env *Env, p *Prop) *Agg {
	return &Agg{Env: env, Prop: p, Counters: map[string]int64{}, Seen: map[string]map[string]int64{},
		Hashes: map[uint64]struct{}{}, Incon: map[string]int64{}, Maxes: map[string]int64{}, Extra: map[string]interface{}{}}
}

func (a *Agg) merge(cp *checkpoint) {
	a.Evals += cp.Evals
	if cp.NumCases > a.NumCases {
		a.NumCases = cp.NumCases
	}
	for k, v := range cp.Counters {
		a.Counters[k] += v
	}
	for cat, m := range cp.Seen {
		d := a.Seen[cat]
		if d == nil {
			d = map[string]int64{}
			a.Seen[cat] = d
		}
		for k, v := range m {
			d[k] += v
		}
	}
	for _, h := range cp.Hashes {
		a.Hashes[h] = struct{}{}
	}
	for _, s := range cp.Samples {
		if len(a.Samples) < 6 {
			a.Samples = append(a.Samples, s)
		}
	}
	for k, v := range cp.Incon {
		a.Incon[k] += v
	}
	for k, v := range cp.Maxes {
		if old, ok := a.Maxes[k]; !ok || v > old {
			a.Maxes[k] = v
		}
	}
	a.Viol = append(a.Viol, cp.Viol...)
}

// Note adds a COVERAGE-NOTE line (does not change the exit status).
func (a *Agg) Note(format string, args ...interface{}) {
	a.Notes = append(a.Notes, fmt.Sprintf(format, args...))
}

// ---------------------------------------------------------------------------

type knownFinding struct {
	Property string          `json:"property"`
	Key      string          `json:"key"`
	What     string          `json:"what"`
	Witness  json.RawMessage `json:"witness,omitempty"`
}

type witnessRef struct {
	Tier   string          `json:"tier,omitempty"`
	Seed   int64           `json:"seed,omitempty"`
	Idx    int             `json:"idx,omitempty"`
	Detail json.RawMessage `json:"detail,omitempty"`
	File   string          `json:"file,omitempty"` // replay file relative to /verif
}

type knownFile struct {
	Findings []knownFinding `json:"findings"`
	Fixed    []string       `json:"fixed"`
}

func loadKnown(env *Env, id string) []knownFinding {
	b, err := os.ReadFile(filepath.Join(env.VerifDir, "known_findings.json"))
	if err != nil {
		return nil
	}
	var kf knownFile
	if err := json.Unmarshal(b, &kf); err != nil {
		fmt.Fprintln(os.Stderr, "known_findings.json:", err)
		return nil
	}
	var out []knownFinding
	for _, f := range kf.Findings {
		if f.Property == id {
			out = append(out, f)
		}
	}
	return out
}

// ---------------------------------------------------------------------------

type shardRun struct {
	p       *Prop
	env     *Env
	dir     string
	shard   int
	nshards int
	agg     *Agg
	mu      *sync.Mutex
}

func readCheckpoints(path string, fromOffset int64) (cps []*checkpoint, newOff int64) {
	f, err := os.Open(path)
	if err != nil {
		return nil, fromOffset
	}
	defer f.Close()
	_, _ = f.Seek(fromOffset, 0)
	rd := bufio.NewReaderSize(f, 1<<20)
	off := fromOffset
	for {
		line, err := rd.ReadBytes('\n')
		if err != nil {
			break // partial last line (child died mid-write) is ignored
		}
		var cp checkpoint
		if json.Unmarshal(line, &cp) == nil {
			cps = append(cps, &cp)
		}
		off += int64(len(line))
	}
	return cps, off
}

func procCPUSeconds(pid int) float64 {
	b, err := os.ReadFile("/proc/" + strconv.Itoa(pid) + "/stat")
	if err != nil {
		return -1
	}
	s := string(b)
	i := strings.LastIndex(s, ")")
	if i < 0 {
		return -1
	}
	f := strings.Fields(s[i+1:])
	if len(f) < 13 {
		return -1
	}
	ut, _ := strconv.ParseFloat(f[11], 64)
	stt, _ := strconv.ParseFloat(f[12], 64)
	return (ut + stt) / 100.0
}

func readStatus(path string) (idx int, phase string) {
	b, err := os.ReadFile(path)
	if err != nil {
		return -1, ""
	}
	f := strings.Fields(string(b))
	if len(f) < 2 {
		return -1, ""
	}
	idx, _ = strconv.Atoi(f[0])
	return idx, f[1]
}

type childResult struct {
	exit     int
	hung     string // "" | "cpu" | "wall"
	lastIdx  int
	phase    string
	stderr   string
	finished bool
}

// runChild runs one child process under the watchdog.
func runChild(p *Prop, env *Env, extraEnv []string, outFile, statusFile, stderrFile string, args ...string) childResult {
	exe, _ := os.Executable()
	full := append([]string{"--child", "--out", outFile, "--status", statusFile}, args...)
	cmd := exec.Command(exe, full...)
	procs := p.ChildProcs
	if procs == 0 {
		procs = 2
	}
	cmd.Env = append(os.Environ(), "GOMAXPROCS="+strconv.Itoa(procs), "GOTRACEBACK=all")
	cmd.Env = append(cmd.Env, extraEnv...)
	ef, err := os.Create(stderrFile)
	if err != nil {
		return childResult{exit: 3, stderr: err.Error()}
	}
	cmd.Stderr = ef
	cmd.Stdout = ef
	_ = os.Remove(statusFile)
	if err := cmd.Start(); err != nil {
		ef.Close()
		return childResult{exit: 3, stderr: err.Error()}
	}
	done := make(chan error, 1)
	go func() { done <- cmd.Wait() }()
	budget := p.CaseCPUSec
	if budget == 0 {
		budget = 120
	}
	wallBudget := 20*budget + 600 // generous wall watchdog; firing is inconclusive
	curIdx, curPhase := -1000, ""
	baseCPU := 0.0
	baseWall := time.Now()
	res := childResult{}
	tick := time.NewTicker(200 * time.Millisecond)
	defer tick.Stop()
loop:
	for {
		select {
		case err := <-done:
			if err != nil {
				if ee, ok := err.(*exec.ExitError); ok {
					res.exit = ee.ExitCode()
					if res.exit == -1 {
						res.exit = 128
					}
				} else {
					res.exit = 3
				}
			}
			break loop
		case <-tick.C:
			idx, ph := readStatus(statusFile)
			cpu := procCPUSeconds(cmd.Process.Pid)
			if idx != curIdx || ph != curPhase {
				curIdx, curPhase = idx, ph
				baseCPU = cpu
				baseWall = time.Now()
				continue
			}
			if ph != "run" {
				// setup / flush: only the wall watchdog applies
				if time.Since(baseWall).Seconds() > wallBudget {
					res.hung = "wall"
				}
			} else if cpu >= 0 && cpu-baseCPU > budget {
				res.hung = "cpu"
			} else if time.Since(baseWall).Seconds() > wallBudget {
				res.hung = "wall"
			}
			if res.hung != "" {
				_ = cmd.Process.Signal(syscall.SIGQUIT)
				select {
				case <-done:
				case <-time.After(5 * time.Second):
					_ = cmd.Process.Kill()
					<-done
				}
				res.exit = 128
				break loop
			}
		}
	}
	ef.Close()
	res.lastIdx, res.phase = readStatus(statusFile)
	if b, err := os.ReadFile(stderrFile); err == nil {
		if len(b) > 1<<20 {
			b = append(b[:512<<10:512<<10], b[len(b)-(512<<10):]...)
		}
		res.stderr = string(b)
	}
	res.finished = res.exit == 0 && res.hung == ""
	return res
}

func fatalClass(stderr string) (class, frame string) {
	class = "unknown"
	switch {
	case strings.Contains(stderr, "stack overflow"), strings.Contains(stderr, "stack exceeds"):
		class = "stack-overflow"
	case strings.Contains(stderr, "out of memory"), strings.Contains(stderr, "cannot allocate memory"):
		class = "oom"
	case strings.Contains(stderr, "checkptr"):
		class = "checkptr"
	case strings.Contains(stderr, "concurrent map"):
		class = "concurrent-map"
	case strings.Contains(stderr, "all goroutines are asleep"):
		class = "deadlock"
	case strings.Contains(stderr, "fatal error:"):
		i := strings.Index(stderr, "fatal error:")
		l := stderr[i:]
		if j := strings.IndexByte(l, '\n'); j > 0 {
			l = l[:j]
		}
		class = strings.TrimSpace(strings.TrimPrefix(l, "fatal error:"))
	case strings.Contains(stderr, "panic:"):
		class = "panic-in-child"
	}
	frame = "unknown"
	for _, l := range strings.Split(stderr, "\n") {
		if strings.HasPrefix(l, "github.com/Eyevinn/mp4ff") {
			fn := l
			if i := strings.LastIndex(fn, "("); i > 0 {
				fn = fn[:i]
			}
			frame = strings.TrimPrefix(fn, "github.com/Eyevinn/mp4ff/")
			break
		}
	}
	return
}

func tail(s string, n int) string {
	if len(s) <= n {
		return s
	}
	return s[len(s)-n:]
}

func head(s string, n int) string {
	if len(s) <= n {
		return s
	}
	return s[:n]
}

// runShard drives one shard to completion, restarting the child after deaths.
func (s *shardRun) run() {
	out := filepath.Join(s.dir, fmt.Sprintf("out.%d", s.shard))
	status := filepath.Join(s.dir, fmt.Sprintf("status.%d", s.shard))
	stderrF := filepath.Join(s.dir, fmt.Sprintf("stderr.%d", s.shard))
	var off int64
	from := 0
	var skip []string
	deaths := 0
	for {
		args := []string{"--tier", s.env.Tier, "--shard", strconv.Itoa(s.shard), "--nshards", strconv.Itoa(s.nshards), "--from", strconv.Itoa(from)}
		if len(skip) > 0 {
			args = append(args, "--skip", strings.Join(skip, ","))
		}
		res := runChild(s.p, s.env, nil, out, status, stderrF, args...)
		cps, noff := readCheckpoints(out, off)
		off = noff
		done := false
		s.mu.Lock()
		for _, cp := range cps {
			s.agg.merge(cp)
			if cp.Upto+1 > from {
				from = cp.Upto + 1
			}
			if cp.Done {
				done = true
			}
		}
		s.mu.Unlock()
		if res.finished && done {
			return
		}
		if res.exit == 4 || res.exit == 3 {
			s.mu.Lock()
			s.agg.HarnessErr = append(s.agg.HarnessErr, fmt.Sprintf("shard %d: child exit %d: %s", s.shard, res.exit, tail(res.stderr, 2000)))
			s.mu.Unlock()
			return
		}
		// the child died or was killed while running case res.lastIdx
		deaths++
		k := res.lastIdx
		if k < 0 || res.phase == "setup" {
			s.mu.Lock()
			s.agg.HarnessErr = append(s.agg.HarnessErr, fmt.Sprintf("shard %d: child died outside a case (exit %d, phase %s): %s", s.shard, res.exit, res.phase, tail(res.stderr, 2000)))
			s.mu.Unlock()
			return
		}
		s.confirmDeath(k, res)
		skip = append(skip, strconv.Itoa(k))
		if deaths > 300 {
			s.mu.Lock()
			s.agg.HarnessErr = append(s.agg.HarnessErr, fmt.Sprintf("shard %d abandoned after %d child deaths", s.shard, deaths))
			s.mu.Unlock()
			return
		}
	}
}

// confirmDeath re-runs case k alone in a fresh child; only a second death /
// budget exceedance is a violation.
func (s *shardRun) confirmDeath(k int, first childResult) {
	out := filepath.Join(s.dir, fmt.Sprintf("solo.%d.%d", s.shard, k))
	status := out + ".status"
	stderrF := out + ".stderr"
	res := runChild(s.p, s.env, nil, out, status, stderrF, "--tier", s.env.Tier, "--only", strconv.Itoa(k))
	cps, _ := readCheckpoints(out, 0)
	s.mu.Lock()
	defer s.mu.Unlock()
	if res.finished {
		// solo run survived: merge what it observed, the batch death is inconclusive
		for _, cp := range cps {
			s.agg.merge(cp)
		}
		why := "child-death-not-reproduced-solo"
		if first.hung != "" {
			why = "watchdog-" + first.hung + "-not-reproduced-solo"
		}
		s.agg.Incon[why]++
		return
	}
	v := Violation{Property: s.p.ID, Tier: s.env.Tier, Seed: s.env.Seed, Idx: k}
	if res.hung != "" {
		if res.hung == "wall" || !s.p.HangIsViolation {
			s.agg.Incon["watchdog-"+res.hung]++
			return
		}
		_, frame := fatalClass(res.stderr)
		v.Key = "hang/" + frame + "/cpu"
		v.What = fmt.Sprintf("case %d exceeded the per-case CPU budget twice (batch and solo); goroutine dump head: %s", k, head(res.stderr, 1500))
	} else {
		class, frame := fatalClass(res.stderr)
		v.Key = "fatal/" + frame + "/" + class
		v.What = fmt.Sprintf("case %d killed its worker twice (batch and solo), exit %d: %s", k, res.exit, head(res.stderr, 1500))
	}
	s.agg.Viol = append(s.agg.Viol, v)
	s.agg.Counters["violations_raw"]++
}

// ---------------------------------------------------------------------------

func parentMain(p *Prop, tier string) int {
	t0 := time.Now()
	env := makeEnv(tier)
	dir, err := os.MkdirTemp("", "verif-"+p.ID+"-parent-")
	if err != nil {
		fmt.Fprintln(os.Stderr, err)
		return 3
	}
	defer os.RemoveAll(dir)
	env.Scratch = dir
	agg := newAgg(env, p)
	var mu sync.Mutex
	if p.ParentInit != nil {
		if err := p.ParentInit(env); err != nil {
			fmt.Printf("HARNESS-ERROR property=%s ParentInit: %v\n", p.ID, err)
			return 3
		}
	}

	// 1. pinned witnesses of known findings
	known := loadKnown(env, p.ID)
	// they run in their own workers, concurrently with the shards (at most 4 at a time)
	var pwg sync.WaitGroup
	psem := make(chan struct{}, 4)
	for i, kf := range known {
		if len(kf.Witness) == 0 {
			continue
		}
		i, kf := i, kf
		pwg.Add(1)
		go func() {
			defer pwg.Done()
			psem <- struct{}{}
			defer func() { <-psem }()
			var w witnessRef
			if json.Unmarshal(kf.Witness, &w) != nil {
				return
			}
			if w.File != "" {
				if b, err := os.ReadFile(filepath.Join(env.VerifDir, w.File)); err == nil {
					var v Violation
					if json.Unmarshal(b, &v) == nil {
						w.Detail, w.Tier, w.Seed, w.Idx = v.Detail, v.Tier, v.Seed, v.Idx
					}
				}
			}
			out := filepath.Join(dir, fmt.Sprintf("pinned.%d", i))
			var res childResult
			wtier := w.Tier
			if wtier == "" {
				wtier = tier
			}
			if len(w.Detail) > 0 && p.Replay != nil {
				df := out + ".detail"
				_ = os.WriteFile(df, w.Detail, 0o644)
				res = runChild(p, env, nil, out, out+".status", out+".stderr", "--tier", wtier, "--pinned", "--detail", df)
			} else {
				res = runChild(p, env, []string{"VERIF_SEED=" + strconv.FormatInt(w.Seed, 10)}, out, out+".status", out+".stderr",
					"--tier", wtier, "--pinned", "--only", strconv.Itoa(w.Idx))
			}
			cps, _ := readCheckpoints(out, 0)
			mu.Lock()
			defer mu.Unlock()
			for _, cp := range cps {
				// pinned runs contribute violations only (not coverage)
				for _, v := range cp.Viol {
					v.Pinned = true
					agg.Viol = append(agg.Viol, v)
				}
			}
			if !res.finished && res.exit != 4 {
				// the witness kills the worker: that is the finding itself
				class, frame := fatalClass(res.stderr)
				key := "fatal/" + frame + "/" + class
				if res.hung == "cpu" {
					key = "hang/" + frame + "/cpu"
				}
				agg.Viol = append(agg.Viol, Violation{Property: p.ID, Key: key, What: "pinned witness kills the worker", Pinned: true, Tier: wtier, Seed: w.Seed, Idx: w.Idx})
			}
		}()
	}

	// 2. the case list, sharded over children
	nshards := p.Shards
	if nshards == 0 {
		nshards = 16
	}
	if v := envInt("VERIF_SHARDS", 0); v > 0 {
		nshards = int(v)
	}
	var wg sync.WaitGroup
	for i := 0; i < nshards; i++ {
		s := &shardRun{p: p, env: env, dir: dir, shard: i, nshards: nshards, agg: agg, mu: &mu}
		wg.Add(1)
		go func() { defer wg.Done(); s.run() }()
	}
	wg.Wait()
	pwg.Wait()

	if p.Finalize != nil {
		p.Finalize(agg)
	}
	return report(agg, known, time.Since(t0))
}

func report(agg *Agg, known []knownFinding, wall time.Duration) int {
	p, env := agg.Prop, agg.Env
	knownKeys := map[string]knownFinding{}
	for _, k := range known {
		knownKeys[k.Key] = k
	}
	// de-duplicate violations by key
	byKey := map[string][]Violation{}
	var keys []string
	for _, v := range agg.Viol {
		if _, ok := byKey[v.Key]; !ok {
			keys = append(keys, v.Key)
		}
		byKey[v.Key] = append(byKey[v.Key], v)
	}
	sort.Strings(keys)
	var knownSeen []string
	var newKeys []string
	for _, k := range keys {
		if kf, ok := knownKeys[k]; ok {
			fmt.Printf("KNOWN-FINDING: property=%s %s [key %s]\n", p.ID, kf.What, k)
			knownSeen = append(knownSeen, k)
		} else {
			newKeys = append(newKeys, k)
		}
	}
	replayDir := filepath.Join(env.VerifDir, "replays", p.ID)
	violCount := 0
	var violSummaries []map[string]string
	for i, k := range newKeys {
		vs := byKey[k]
		// prefer a non-pinned witness with the smallest idx
		sort.Slice(vs, func(a, b int) bool { return vs[a].Idx < vs[b].Idx })
		v := vs[0]
		violCount++
		_ = os.MkdirAll(replayDir, 0o755)
		h := sha256.Sum256([]byte(k))
		path := filepath.Join(replayDir, hex.EncodeToString(h[:6])+".json")
		b, _ := json.MarshalIndent(v, "", " ")
		_ = os.WriteFile(path, b, 0o644)
		if i < 20 {
			fmt.Printf("VIOLATION property=%s replay=%s\n", p.ID, path)
			fmt.Printf("  key: %s\n  what: %s\n", k, strings.ReplaceAll(head(v.What, 600), "\n", "\n        "))
		}
		violSummaries = append(violSummaries, map[string]string{"key": k, "what": head(v.What, 300), "replay": path})
	}
	for _, n := range agg.Notes {
		fmt.Printf("COVERAGE-NOTE property=%s %s\n", p.ID, n)
	}
	for _, e := range agg.HarnessErr {
		fmt.Printf("HARNESS-ERROR property=%s %s\n", p.ID, head(e, 1500))
	}
	minNT := p.MinNontrivial
	if minNT == 0 {
		minNT = 2
	}
	if agg.Nothing == "" && len(agg.Hashes) < minNT {
		agg.Nothing = fmt.Sprintf("only %d distinct non-trivial cases observed (minimum %d)", len(agg.Hashes), minNT)
	}

	// evidence
	cov := map[string]interface{}{}
	for k, v := range agg.Extra {
		cov[k] = v
	}
	cov["evaluations"] = agg.Evals
	cov["distinct_nontrivial"] = len(agg.Hashes)
	cov["rule"] = p.Rule
	samples := make([]interface{}, 0, len(agg.Samples))
	for _, s := range agg.Samples {
		var v interface{}
		if json.Unmarshal(s, &v) == nil {
			samples = append(samples, v)
		}
	}
	cov["samples"] = samples
	cov["case_list_size"] = agg.NumCases
	cov["counters"] = agg.Counters
	// seen: report distinct count + the values (bounded)
	seenOut := map[string]interface{}{}
	for cat, m := range agg.Seen {
		ks := sortedKeys(m)
		entry := map[string]interface{}{"distinct": len(ks)}
		if len(ks) <= 400 {
			entry["values"] = m
		} else {
			top := map[string]int64{}
			for _, k := range ks[:400] {
				top[k] = m[k]
			}
			entry["values_first_400"] = top
		}
		seenOut[cat] = entry
	}
	cov["seen"] = seenOut
	cov["inconclusive"] = agg.Incon
	if len(agg.Maxes) > 0 {
		cov["maxima"] = agg.Maxes
	}
	cov["known_findings_seen"] = knownSeen
	cov["coverage_notes"] = agg.Notes
	cov["new_violations"] = violSummaries
	if len(agg.HarnessErr) > 0 {
		cov["harness_errors"] = agg.HarnessErr
	}
	if p.Exhaustive != nil && p.Exhaustive(env.Tier) {
		cov["exhaustive"] = true
	}
	if agg.Nothing != "" {
		cov["observed_nothing"] = agg.Nothing
	}
	ev := map[string]interface{}{
		"property_id": p.ID,
		"tier":        env.Tier,
		"seed":        env.Seed,
		"level":       "exploration",
		"coverage":    cov,
		"assumptions": p.Assumptions,
		"wall_s":      float64(int(wall.Seconds()*100)) / 100,
		"violations":  violCount,
	}
	if p.Assumptions == nil {
		ev["assumptions"] = []string{}
	}
	_ = os.MkdirAll(filepath.Join(env.VerifDir, "evidence"), 0o755)
	b, _ := json.MarshalIndent(ev, "", " ")
	if err := os.WriteFile(filepath.Join(env.VerifDir, "evidence", p.ID+".json"), b, 0o644); err != nil {
		fmt.Fprintln(os.Stderr, "evidence:", err)
	}

	inc := int64(0)
	for _, v := range agg.Incon {
		inc += v
	}
	fmt.Printf("%s %s seed=%d: evaluations=%d distinct_nontrivial=%d violations(new keys)=%d known=%d inconclusive=%d wall=%.1fs\n",
		p.ID, env.Tier, env.Seed, agg.Evals, len(agg.Hashes), violCount, len(knownSeen), inc, wall.Seconds())
	switch {
	case violCount > 0:
		return 1
	case len(agg.HarnessErr) > 0:
		return 3
	case agg.Nothing != "":
		fmt.Printf("INCONCLUSIVE property=%s %s\n", p.ID, agg.Nothing)
		return 2
	}
	return 0
}

// replayMain re-runs one saved violation and reports whether it reproduces.
func replayMain(p *Prop, path string) {
	b, err := os.ReadFile(path)
	if err != nil {
		fmt.Fprintln(os.Stderr, err)
		os.Exit(3)
	}
	var v Violation
	if err := json.Unmarshal(b, &v); err != nil {
		fmt.Fprintln(os.Stderr, err)
		os.Exit(3)
	}
	env := makeEnv(v.Tier)
	dir, _ := os.MkdirTemp("", "verif-replay-")
	defer os.RemoveAll(dir)
	out := filepath.Join(dir, "out")
	var res childResult
	if len(v.Detail) > 0 && p.Replay != nil && !bytes.Equal(v.Detail, []byte("null")) {
		df := filepath.Join(dir, "detail")
		_ = os.WriteFile(df, v.Detail, 0o644)
		res = runChild(p, env, nil, out, out+".status", out+".stderr", "--tier", v.Tier, "--detail", df)
	} else {
		res = runChild(p, env, []string{"VERIF_SEED=" + strconv.FormatInt(v.Seed, 10)}, out, out+".status", out+".stderr",
			"--tier", v.Tier, "--only", strconv.Itoa(v.Idx))
	}
	cps, _ := readCheckpoints(out, 0)
	n := 0
	for _, cp := range cps {
		for _, vv := range cp.Viol {
			n++
			fmt.Printf("REPRODUCED key=%s\n  %s\n", vv.Key, head(vv.What, 1500))
		}
	}
	if !res.finished {
		class, frame := fatalClass(res.stderr)
		fmt.Printf("REPRODUCED worker death (%s at %s, hung=%q exit=%d)\n%s\n", class, frame, res.hung, res.exit, head(res.stderr, 3000))
		n++
	}
	if n == 0 {
		fmt.Println("NOT REPRODUCED on the current tree")
		os.RemoveAll(dir)
		os.Exit(0)
	}
	os.RemoveAll(dir)
	os.Exit(1)
}
