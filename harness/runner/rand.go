package runner

// Rand is a small deterministic PRNG (splitmix64). Every case derives its own
// generator from (VERIF_SEED, property, case index), so a replay re-creates
// exactly one case.
type Rand struct{ s uint64 }

// NewRand returns a generator seeded with the given words.
func NewRand(words ...uint64) *Rand {
	r := &Rand{s: 0x9e3779b97f4a7c15}
	for _, w := range words {
		r.s ^= w + 0x9e3779b97f4a7c15 + (r.s << 6) + (r.s >> 2)
		r.Uint64()
	}
	return r
}

// Uint64 returns the next 64 random bits.
func (r *Rand) Uint64() uint64 {
	r.s += 0x9e3779b97f4a7c15
	z := r.s
	z = (z ^ (z >> 30)) * 0xbf58476d1ce4e5b9
	z = (z ^ (z >> 27)) * 0x94d049bb133111eb
	return z ^ (z >> 31)
}

// Uint32 returns 32 random bits.
func (r *Rand) Uint32() uint32 { return uint32(r.Uint64() >> 32) }

// Intn returns a value in [0,n). n<=0 gives 0.
func (r *Rand) Intn(n int) int {
	if n <= 0 {
		return 0
	}
	return int(r.Uint64() % uint64(n))
}

// Range returns a value in [lo,hi] inclusive.
func (r *Rand) Range(lo, hi int) int {
	if hi <= lo {
		return lo
	}
	return lo + r.Intn(hi-lo+1)
}

// Bool returns a fair coin.
func (r *Rand) Bool() bool { return r.Uint64()&1 == 1 }

// Chance returns true with probability num/den.
func (r *Rand) Chance(num, den int) bool { return r.Intn(den) < num }

// Bytes returns n random bytes.
func (r *Rand) Bytes(n int) []byte {
	b := make([]byte, n)
	for i := 0; i < n; i += 8 {
		v := r.Uint64()
		for j := 0; j < 8 && i+j < n; j++ {
			b[i+j] = byte(v >> (8 * j))
		}
	}
	return b
}

// PickInt returns one of the given ints.
func (r *Rand) PickInt(v ...int) int { return v[r.Intn(len(v))] }

// PickU64 returns one of the given values.
func (r *Rand) PickU64(v ...uint64) uint64 { return v[r.Intn(len(v))] }

// PickStr returns one of the given strings.
func (r *Rand) PickStr(v ...string) string { return v[r.Intn(len(v))] }

// Perm returns a random permutation of 0..n-1.
func (r *Rand) Perm(n int) []int {
	p := make([]int, n)
	for i := range p {
		p[i] = i
	}
	for i := n - 1; i > 0; i-- {
		j := r.Intn(i + 1)
		p[i], p[j] = p[j], p[i]
	}
	return p
}

// Fork derives an independent generator.
func (r *Rand) Fork() *Rand { return NewRand(r.Uint64(), r.Uint64()) }

// Hash64 is FNV-1a over bytes, used for distinct-case accounting.
func Hash64(parts ...[]byte) uint64 {
	h := uint64(14695981039346656037)
	for _, p := range parts {
		for _, b := range p {
			h ^= uint64(b)
			h *= 1099511628211
		}
		h ^= 0xff
		h *= 1099511628211
	}
	return h
}

// HashStr hashes strings.
func HashStr(parts ...string) uint64 {
	bs := make([][]byte, len(parts))
	for i, p := range parts {
		bs[i] = []byte(p)
	}
	return Hash64(bs...)
}
