package runner

import (
	"encoding/json"
	"fmt"
	"os"
	"strconv"
	"strings"
	"syscall"
	"time"
)

// checkpoint is one record of a child's output file.
type checkpoint struct {
	Upto     int                         `json:"upto"`
	Evals    int64                       `json:"evals"`
	Counters map[string]int64            `json:"counters,omitempty"`
	Seen     map[string]map[string]int64 `json:"seen,omitempty"`
	Hashes   []uint64                    `json:"hashes,omitempty"`
	Samples  []json.RawMessage           `json:"samples,omitempty"`
	Incon    map[string]int64            `json:"incon,omitempty"`
	Maxes    map[string]int64            `json:"maxes,omitempty"`
	Viol     []Violation                 `json:"viol,omitempty"`
	Done     bool                        `json:"done,omitempty"`
	NumCases int                         `json:"num_cases,omitempty"`
}

type childArgs struct {
	tier    string
	shard   int
	nshards int
	out     string
	status  string
	from    int
	skip    map[int]bool
	only    int
	detail  string // file with a witness detail to replay through Prop.Replay
	pinned  bool
}

func parseChildArgs(args []string) *childArgs {
	a := &childArgs{only: -1, nshards: 1, skip: map[int]bool{}}
	for i := 0; i < len(args); i++ {
		next := func() string {
			i++
			if i < len(args) {
				return args[i]
			}
			return ""
		}
		switch args[i] {
		case "--tier":
			a.tier = next()
		case "--shard":
			a.shard, _ = strconv.Atoi(next())
		case "--nshards":
			a.nshards, _ = strconv.Atoi(next())
		case "--out":
			a.out = next()
		case "--status":
			a.status = next()
		case "--from":
			a.from, _ = strconv.Atoi(next())
		case "--only":
			a.only, _ = strconv.Atoi(next())
		case "--detail":
			a.detail = next()
		case "--pinned":
			a.pinned = true
		case "--skip":
			for _, s := range strings.Split(next(), ",") {
				if v, err := strconv.Atoi(s); err == nil {
					a.skip[v] = true
				}
			}
		}
	}
	return a
}

func childMain(p *Prop, args []string) {
	a := parseChildArgs(args)
	env := makeEnv(a.tier)
	memMB := p.MemLimitMB
	if memMB == 0 {
		memMB = 6144
	}
	if env.Race {
		memMB = -1 // the race runtime reserves a huge shadow region
	}
	if memMB > 0 {
		lim := uint64(memMB) << 20
		_ = syscall.Setrlimit(syscall.RLIMIT_AS, &syscall.Rlimit{Cur: lim, Max: lim})
	}
	scratch, err := os.MkdirTemp("", "verif-"+p.ID+"-")
	if err != nil {
		fmt.Fprintln(os.Stderr, "scratch:", err)
		os.Exit(3)
	}
	env.Scratch = scratch
	defer os.RemoveAll(scratch)

	out, err := os.OpenFile(a.out, os.O_CREATE|os.O_WRONLY|os.O_APPEND, 0o644)
	if err != nil {
		fmt.Fprintln(os.Stderr, "out:", err)
		os.RemoveAll(scratch)
		os.Exit(3)
	}
	var st *os.File
	if a.status != "" {
		st, err = os.OpenFile(a.status, os.O_CREATE|os.O_WRONLY, 0o644)
		if err != nil {
			fmt.Fprintln(os.Stderr, "status:", err)
			os.RemoveAll(scratch)
			os.Exit(3)
		}
	}
	setStatus := func(idx int, phase string) {
		if st == nil {
			return
		}
		s := fmt.Sprintf("%-12d %-10s\n", idx, phase)
		_, _ = st.WriteAt([]byte(s), 0)
	}
	setStatus(-1, "setup")
	if p.Setup != nil {
		if err := p.Setup(env); err != nil {
			fmt.Fprintln(os.Stderr, "HARNESS-SETUP-FAILED:", err)
			os.RemoveAll(scratch)
			os.Exit(4)
		}
	}
	n := p.NumCases(env)
	if m := int(envInt("VERIF_MAXCASES", 0)); m > 0 && m < n {
		n = m // development aid only
	}
	state := newChildState()
	var evals int64
	flush := func(upto int, done bool) {
		cp := checkpoint{Upto: upto, Evals: evals, Counters: state.counters, Seen: state.seen,
			Samples: state.samples, Incon: state.incon, Maxes: state.maxes, Viol: state.viol, Done: done, NumCases: n}
		for h := range state.hashes {
			cp.Hashes = append(cp.Hashes, h)
		}
		b, _ := json.Marshal(cp)
		b = append(b, '\n')
		_, _ = out.Write(b)
		ns := state.nsamples
		state = newChildState()
		state.nsamples = ns
		evals = 0
	}
	runOne := func(idx int, detail json.RawMessage) {
		c := &Ctx{Env: env, Prop: p, Idx: idx, w: state, pinned: a.pinned}
		c.Rand = NewRand(uint64(env.Seed), HashStr(p.ID), uint64(idx)+1)
		pi := c.Guard(func() {
			if detail != nil {
				p.Replay(c, detail)
			} else {
				p.Run(c, idx)
			}
		})
		if pi != nil {
			// a panic that the monitor itself did not guard: library or harness
			c.Violation(PanicKey("unguarded", pi), "panic escaped the monitor: "+pi.Value,
				map[string]interface{}{"stack": pi.Stack})
		}
		if c.evals > 0 {
			evals += c.evals
		} else {
			evals++
		}
	}
	if a.detail != "" {
		raw, err := os.ReadFile(a.detail)
		if err != nil || p.Replay == nil {
			fmt.Fprintln(os.Stderr, "HARNESS: cannot replay detail:", err)
			os.RemoveAll(scratch)
			os.Exit(4)
		}
		setStatus(-2, "run")
		runOne(-2, raw)
		flush(-2, true)
		out.Close()
		return
	}
	if a.only >= 0 {
		setStatus(a.only, "run")
		runOne(a.only, nil)
		flush(a.only, true)
		out.Close()
		return
	}
	last := time.Now()
	sinceCP := 0
	lastIdx := a.from - 1
	for idx := a.from; idx < n; idx++ {
		if idx%a.nshards != a.shard || a.skip[idx] {
			continue
		}
		setStatus(idx, "run")
		nv := len(state.viol)
		runOne(idx, nil)
		lastIdx = idx
		sinceCP++
		if sinceCP >= 512 || len(state.viol) != nv || time.Since(last) > 3*time.Second {
			setStatus(idx, "flush")
			flush(idx, false)
			sinceCP = 0
			last = time.Now()
		}
	}
	setStatus(lastIdx, "done")
	flush(lastIdx, true)
	out.Close()
}
