// Package runner is the shared machinery of the /verif monitors: case
// scheduling over isolated child processes, watchdog, violation/replay files,
// known-finding handling and the evidence writer.
package runner

import (
	"encoding/json"
	"fmt"
	"os"
	"path/filepath"
	"runtime"
	"runtime/debug"
	"sort"
	"strconv"
	"strings"
)

// Env describes the run.
type Env struct {
	Tier     string // quick | thorough
	Seed     int64
	RepoDir  string // /repo or VERIF_REPO
	VerifDir string // /verif
	BinDir   string // built tool binaries (run.sh builds them): $VERIF_BIN
	Scratch  string // private scratch directory of this process (removed at exit)
	Race     bool   // this binary was built with -race
}

// Prop is one property monitor.
type Prop struct {
	ID          string
	Rule        string
	Assumptions []string
	Exhaustive  func(tier string) bool
	// NumCases gives the size of the case list, a pure function of (tier, seed).
	NumCases func(env *Env) int
	// Setup runs once per process before any case (load corpus, ...).
	Setup func(env *Env) error
	// Run executes case idx. All randomness must come from c.Rand.
	Run func(c *Ctx, idx int)
	// Replay re-runs a violation from its saved detail alone (optional). When
	// nil, replay re-runs (tier, seed, idx).
	Replay func(c *Ctx, detail json.RawMessage)
	// ParentInit runs in the parent before any worker is started (it may set
	// environment variables that workers inherit, e.g. GORACE with a log_path
	// under env.Scratch; env.Scratch of the parent lives until after Finalize).
	ParentInit func(env *Env) error
	// Finalize runs in the parent after aggregation (coverage notes, extra
	// evidence keys, observed-nothing decisions).
	Finalize func(a *Agg)
	// Shards: number of child processes (0 = 16).
	Shards int
	// ChildProcs: GOMAXPROCS of each child (0 = 2).
	ChildProcs int
	// CaseCPUSec: watchdog CPU budget for a single case (0 = 120).
	CaseCPUSec float64
	// HangIsViolation: a case exceeding CaseCPUSec twice (batch + solo) is a
	// violation (C04/C16); otherwise it is inconclusive.
	HangIsViolation bool
	// MemLimitMB: RLIMIT_AS of children in MiB (0 = 6144; <0 = none).
	MemLimitMB int
	// MinNontrivial: fewer distinct non-trivial cases than this means the
	// monitor observed nothing (exit 2). Default 2.
	MinNontrivial int
	// InProcess: run cases in the parent process (no isolation); used by
	// monitors that spawn their own goroutines/tools. Default false.
	InProcess bool
}

var props = map[string]*Prop{}

// Register adds a property monitor.
func Register(p *Prop) { props[p.ID] = p }

// Violation is one observed refutation.
type Violation struct {
	Property string          `json:"property"`
	Key      string          `json:"key"`
	What     string          `json:"what"`
	Tier     string          `json:"tier"`
	Seed     int64           `json:"seed"`
	Idx      int             `json:"idx"`
	Pinned   bool            `json:"pinned,omitempty"`
	Detail   json.RawMessage `json:"detail,omitempty"`
}

// PanicInfo describes a recovered panic.
type PanicInfo struct {
	Value    string
	Class    string // nil-deref | index | slice | explicit | divide | type-assertion | makeslice | other
	TopFrame string // first mp4ff function on the stack
	Stack    string
}

// Ctx is handed to Run for each case.
type Ctx struct {
	Env  *Env
	Prop *Prop
	Idx  int
	Rand *Rand

	pinned bool
	w      *childState
	evals  int64
}

// Evals declares that this case performed n inner evaluations (a case that
// enumerates a block of the domain); they are what "evaluations" counts.
func (c *Ctx) Evals(n int64) { c.evals += n }

type childState struct {
	counters map[string]int64
	seen     map[string]map[string]int64
	hashes   map[uint64]struct{}
	samples  []json.RawMessage
	incon    map[string]int64
	maxes    map[string]int64
	viol     []Violation
	nsamples int
}

func newChildState() *childState {
	return &childState{counters: map[string]int64{}, seen: map[string]map[string]int64{},
		hashes: map[uint64]struct{}{}, incon: map[string]int64{}, maxes: map[string]int64{}}
}

// Count adds to a named counter reported in evidence.
func (c *Ctx) Count(name string, n int64) { c.w.counters[name] += n }

// SetMax records the maximum of a named observation (reported in evidence
// under "maxima").
func (c *Ctx) SetMax(name string, v int64) {
	if old, ok := c.w.maxes[name]; !ok || v > old {
		c.w.maxes[name] = v
	}
}

// Seen records a value of a coverage category (distinct values and their
// frequencies are reported in evidence). Keep cardinality small.
func (c *Ctx) Seen(category, value string) {
	m := c.w.seen[category]
	if m == nil {
		m = map[string]int64{}
		c.w.seen[category] = m
	}
	m[value]++
}

// Nontrivial marks the case (identified by h) as non-trivial by the
// property's rule; distinct hashes are counted.
func (c *Ctx) Nontrivial(h uint64) { c.w.hashes[h] = struct{}{} }

// Sample stores an example case for the evidence file (only the first few per
// process are kept).
func (c *Ctx) Sample(v interface{}) {
	if c.w.nsamples >= 3 {
		return
	}
	b, err := json.Marshal(v)
	if err != nil {
		return
	}
	if len(b) > 4000 {
		b, _ = json.Marshal(string(b[:4000]) + "...(truncated)")
	}
	c.w.samples = append(c.w.samples, b)
	c.w.nsamples++
}

// WantSample tells whether Sample would still keep something (to avoid
// building expensive descriptions).
func (c *Ctx) WantSample() bool { return c.w.nsamples < 3 }

// Inconclusive records a case (or clause) that could not be decided.
func (c *Ctx) Inconclusive(why string) { c.w.incon[why]++ }

// Violation records a refutation. key identifies the finding class (used for
// de-duplication and for known-finding matching); detail should make the
// witness self-contained where possible.
func (c *Ctx) Violation(key, what string, detail interface{}) {
	var raw json.RawMessage
	if detail != nil {
		b, err := json.Marshal(detail)
		if err == nil {
			raw = b
		}
	}
	// bound the number of stored witnesses per key per process
	n := 0
	for _, v := range c.w.viol {
		if v.Key == key {
			n++
		}
	}
	c.w.counters["violations_raw"]++
	c.Seen("violation_keys", key)
	if n >= 2 {
		return
	}
	if len(what) > 2000 {
		what = what[:2000] + "...(truncated)"
	}
	c.w.viol = append(c.w.viol, Violation{Property: c.Prop.ID, Key: key, What: what,
		Tier: c.Env.Tier, Seed: c.Env.Seed, Idx: c.Idx, Pinned: c.pinned, Detail: raw})
}

// Guard runs f and recovers a panic. It returns nil when f returned normally.
func (c *Ctx) Guard(f func()) (pi *PanicInfo) {
	defer func() {
		if r := recover(); r != nil {
			st := string(debug.Stack())
			pi = &PanicInfo{Value: fmt.Sprint(r), Stack: st}
			pi.Class = classifyPanic(r, pi.Value)
			pi.TopFrame = topRepoFrame(st)
		}
	}()
	f()
	return nil
}

func classifyPanic(r interface{}, s string) string {
	if _, ok := r.(runtime.Error); ok {
		switch {
		case strings.Contains(s, "nil pointer dereference"):
			return "nil-deref"
		case strings.Contains(s, "index out of range"):
			return "index"
		case strings.Contains(s, "slice bounds out of range"):
			return "slice"
		case strings.Contains(s, "divide by zero"):
			return "divide"
		case strings.Contains(s, "interface conversion"):
			return "type-assertion"
		case strings.Contains(s, "makeslice"), strings.Contains(s, "len out of range"), strings.Contains(s, "cap out of range"):
			return "makeslice"
		case strings.Contains(s, "assignment to entry in nil map"):
			return "nil-map"
		}
		return "runtime-other"
	}
	return "explicit"
}

// topRepoFrame returns the first function of the mp4ff module below the
// panic in a debug.Stack() dump.
func topRepoFrame(stack string) string {
	lines := strings.Split(stack, "\n")
	afterPanic := false
	for _, l := range lines {
		if strings.HasPrefix(l, "panic(") {
			afterPanic = true
			continue
		}
		if !afterPanic {
			continue
		}
		if strings.HasPrefix(l, "github.com/Eyevinn/mp4ff") || strings.HasPrefix(l, "main.") {
			fn := l
			if i := strings.LastIndex(fn, "("); i > 0 {
				fn = fn[:i]
			}
			fn = strings.TrimPrefix(fn, "github.com/Eyevinn/mp4ff/")
			return fn
		}
	}
	return "unknown"
}

// PanicKey builds the standard finding key for a crash.
func PanicKey(family string, pi *PanicInfo) string {
	return family + "/" + pi.TopFrame + "/" + pi.Class
}

// ---------------------------------------------------------------------------

func envInt(name string, def int64) int64 {
	if s := os.Getenv(name); s != "" {
		if v, err := strconv.ParseInt(s, 10, 64); err == nil {
			return v
		}
	}
	return def
}

func makeEnv(tier string) *Env {
	e := &Env{Tier: tier, Seed: envInt("VERIF_SEED", 1)}
	e.RepoDir = os.Getenv("VERIF_REPO")
	if e.RepoDir == "" {
		e.RepoDir = "/repo"
	}
	e.VerifDir = os.Getenv("VERIF_DIR")
	if e.VerifDir == "" {
		e.VerifDir = "/verif"
	}
	e.BinDir = os.Getenv("VERIF_BIN")
	if e.BinDir == "" {
		e.BinDir = filepath.Join(e.VerifDir, "bin")
	}
	e.Race = raceEnabled
	return e
}

// Main is the entry point of every per-property binary.
func Main(id string) {
	p := props[id]
	if p == nil {
		fmt.Fprintf(os.Stderr, "unknown property %s\n", id)
		os.Exit(3)
	}
	args := os.Args[1:]
	if len(args) == 0 {
		fmt.Fprintf(os.Stderr, "usage: %s quick|thorough | --replay file\n", id)
		os.Exit(3)
	}
	switch args[0] {
	case "--child":
		childMain(p, args[1:])
	case "--replay":
		if len(args) < 2 {
			os.Exit(3)
		}
		replayMain(p, args[1])
	case "quick", "thorough":
		os.Exit(parentMain(p, args[0]))
	default:
		fmt.Fprintf(os.Stderr, "bad argument %q\n", args[0])
		os.Exit(3)
	}
}

// sortedKeys returns the keys of a string-keyed map in order.
func sortedKeys(m map[string]int64) []string {
	k := make([]string, 0, len(m))
	for s := range m {
		k = append(k, s)
	}
	sort.Strings(k)
	return k
}
