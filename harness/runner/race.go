//go:build race

package runner

const raceEnabled = true
