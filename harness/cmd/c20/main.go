package main

import (
	"os"

	"verifharness/props/c20"
	"verifharness/runner"
)

func main() {
	// fresh single-goroutine reference process spawned by the workers' setup
	if len(os.Args) > 1 && os.Args[1] == "--c20-ref" {
		c20.RefMain(os.Args[2:])
		return
	}
	runner.Main("C20")
}
