package main

import (
	_ "verifharness/props/c04"
	"verifharness/runner"
)

func main() { runner.Main("C04") }
