package main

import (
	_ "verifharness/props/c13"
	"verifharness/runner"
)

func main() { runner.Main("C13") }
