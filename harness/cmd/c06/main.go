package main

import (
	_ "verifharness/props/c06"
	"verifharness/runner"
)

func main() { runner.Main("C06") }
