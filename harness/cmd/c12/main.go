package main

import (
	_ "verifharness/props/c12"
	"verifharness/runner"
)

func main() { runner.Main("C12") }
