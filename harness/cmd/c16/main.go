package main

import (
	"os"

	"verifharness/props/c16"
	"verifharness/runner"
)

func main() {
	// the workers of C16 run the library calls in a probe subprocess of the
	// same binary (see props/c16/probe.go)
	if len(os.Args) > 1 && os.Args[1] == "--c16-probe" {
		c16.ProbeMain(os.Args[2:])
		return
	}
	runner.Main("C16")
}
