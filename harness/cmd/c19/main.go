package main

import (
	_ "verifharness/props/c19"
	"verifharness/runner"
)

func main() { runner.Main("C19") }
