package main

import (
	_ "verifharness/props/c05"
	"verifharness/runner"
)

func main() { runner.Main("C05") }
