package main

import (
	_ "verifharness/props/c03"
	"verifharness/runner"
)

func main() { runner.Main("C03") }
