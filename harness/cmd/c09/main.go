package main

import (
	_ "verifharness/props/c09"
	"verifharness/runner"
)

func main() { runner.Main("C09") }
