package main

import (
	_ "verifharness/props/c01"
	"verifharness/runner"
)

func main() { runner.Main("C01") }
