package main

import (
	_ "verifharness/props/c15"
	"verifharness/runner"
)

func main() { runner.Main("C15") }
