package main

import (
	_ "verifharness/props/c07"
	"verifharness/runner"
)

func main() { runner.Main("C07") }
