package main

import (
	_ "verifharness/props/c18"
	"verifharness/runner"
)

func main() { runner.Main("C18") }
