package main

import (
	_ "verifharness/props/c17"
	"verifharness/runner"
)

func main() { runner.Main("C17") }
