package main

import (
	_ "verifharness/props/c10"
	"verifharness/runner"
)

func main() { runner.Main("C10") }
