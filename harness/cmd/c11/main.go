package main

import (
	_ "verifharness/props/c11"
	"verifharness/runner"
)

func main() { runner.Main("C11") }
