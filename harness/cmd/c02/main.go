package main

import (
	_ "verifharness/props/c02"
	"verifharness/runner"
)

func main() { runner.Main("C02") }
