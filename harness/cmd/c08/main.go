package main

import (
	_ "verifharness/props/c08"
	"verifharness/runner"
)

func main() { runner.Main("C08") }
