package main

import (
	_ "verifharness/props/c14"
	"verifharness/runner"
)

func main() { runner.Main("C14") }
