// Package corpus harvests the seed corpus of the box-level monitors
// (C01-C04) from the repository's testdata at run time: whole media files,
// every box of every file cut out with the independent walker, the upstream
// fuzz seed corpus, and hand-built instances of box types no file contains.
package corpus

import (
	"os"
	"path/filepath"
	"sort"
	"strconv"
	"strings"

	"verifharness/ref/boxwalk"
	"verifharness/runner"
)

// Seed is one corpus entry.
type Seed struct {
	Name string // origin (file path relative to the repo, plus box path)
	Kind string // file | box | fuzz | built
	Type string // box type for box seeds
	Data []byte
}

// Corpus is the harvested seed set.
type Corpus struct {
	Files []Seed // whole files that the reference walker tiles
	Boxes []Seed // single boxes (with subtree)
	Fuzz  []Seed // upstream fuzz corpus entries (arbitrary bytes)
}

var mediaExt = map[string]bool{".mp4": true, ".m4s": true, ".cmfv": true, ".cmfa": true, ".cmft": true, ".m4a": true,
	".mov": true, ".ismv": true, ".isma": true, ".ismt": true, ".mp4s": true, ".dat": true, ".m4v": true}

// Load harvests the corpus from repoDir. The result is deterministic (sorted).
func Load(repoDir string) (*Corpus, error) {
	c := &Corpus{}
	var paths []string
	err := filepath.Walk(repoDir, func(p string, info os.FileInfo, err error) error {
		if err != nil {
			return nil
		}
		if info.IsDir() {
			if info.Name() == ".git" {
				return filepath.SkipDir
			}
			return nil
		}
		if !strings.Contains(p, "testdata") || info.Size() > 8<<20 || info.Size() < 8 {
			return nil
		}
		paths = append(paths, p)
		return nil
	})
	if err != nil {
		return nil, err
	}
	sort.Strings(paths)
	seenBox := map[uint64]bool{}
	perType := map[string]int{}
	for _, p := range paths {
		rel := strings.TrimPrefix(p, repoDir+"/")
		if strings.Contains(p, "/fuzz/") {
			b, err := os.ReadFile(p)
			if err != nil {
				continue
			}
			if d, ok := parseGoFuzz(b); ok {
				c.Fuzz = append(c.Fuzz, Seed{Name: rel, Kind: "fuzz", Data: d})
			}
			continue
		}
		if !mediaExt[strings.ToLower(filepath.Ext(p))] {
			continue
		}
		b, err := os.ReadFile(p)
		if err != nil {
			continue
		}
		nodes, err := boxwalk.Walk(b)
		if err != nil || len(nodes) == 0 {
			continue
		}
		c.Files = append(c.Files, Seed{Name: rel, Kind: "file", Data: b})
		for _, n := range boxwalk.All(nodes) {
			if n.Size > 64<<10 {
				continue
			}
			box := b[n.Start:n.End()]
			h := runner.Hash64(box)
			if seenBox[h] {
				continue
			}
			if perType[n.Type] >= 24 {
				continue
			}
			seenBox[h] = true
			perType[n.Type]++
			c.Boxes = append(c.Boxes, Seed{Name: rel + ":" + n.Path(), Kind: "box", Type: n.Type, Data: append([]byte(nil), box...)})
		}
	}
	for _, s := range Built() {
		h := runner.Hash64(s.Data)
		if !seenBox[h] {
			seenBox[h] = true
			c.Boxes = append(c.Boxes, s)
		}
	}
	return c, nil
}

// parseGoFuzz decodes a "go test fuzz v1" corpus file with one []byte value.
func parseGoFuzz(b []byte) ([]byte, bool) {
	lines := strings.SplitN(string(b), "\n", 3)
	if len(lines) < 2 || !strings.HasPrefix(lines[0], "go test fuzz v1") {
		return nil, false
	}
	l := strings.TrimSpace(lines[1])
	if !strings.HasPrefix(l, "[]byte(") || !strings.HasSuffix(l, ")") {
		return nil, false
	}
	q := l[len("[]byte(") : len(l)-1]
	s, err := strconv.Unquote(q)
	if err != nil {
		return nil, false
	}
	return []byte(s), true
}

// TypesPresent returns the set of box types that have a box seed.
func (c *Corpus) TypesPresent() map[string]int {
	m := map[string]int{}
	for _, s := range c.Boxes {
		m[s.Type]++
	}
	return m
}
