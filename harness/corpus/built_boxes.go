package corpus

// Hand-built instances (byte-level builders written from the ISO/IEC
// 14496-12/-15/-30, 23001-7, 23001-18, ETSI TS 102 366 and codec-binding
// syntax tables, independent of mp4ff's encoders) of every registered box
// type that no testdata file contains and of every version/flag shape of the
// versioned boxes.

import (
	"encoding/binary"
	"fmt"
)

func cat(parts ...[]byte) []byte {
	var out []byte
	for _, p := range parts {
		out = append(out, p...)
	}
	return out
}

func u8(v ...byte) []byte  { return v }
func u16(v uint16) []byte  { b := make([]byte, 2); binary.BigEndian.PutUint16(b, v); return b }
func u24(v uint32) []byte  { return []byte{byte(v >> 16), byte(v >> 8), byte(v)} }
func u32(v uint32) []byte  { b := make([]byte, 4); binary.BigEndian.PutUint32(b, v); return b }
func u64(v uint64) []byte  { b := make([]byte, 8); binary.BigEndian.PutUint64(b, v); return b }
func str0(s string) []byte { return append([]byte(s), 0) }
func zeros(n int) []byte   { return make([]byte, n) }
func seq(n int, start byte) []byte {
	b := make([]byte, n)
	for i := range b {
		b[i] = start + byte(i)
	}
	return b
}

// bx builds a box with a compact header.
func bx(typ string, payload ...[]byte) []byte {
	p := cat(payload...)
	return cat(u32(uint32(8+len(p))), []byte(typ), p)
}

// fb builds a FullBox.
func fb(typ string, ver byte, flags uint32, payload ...[]byte) []byte {
	return bx(typ, cat(u8(ver), u24(flags)), cat(payload...))
}

var unity = cat(u32(0x00010000), u32(0), u32(0), u32(0), u32(0x00010000), u32(0), u32(0), u32(0), u32(0x40000000))

func visualEntry(typ string, w, h uint16, name string, children ...[]byte) []byte {
	cn := make([]byte, 32)
	cn[0] = byte(len(name))
	copy(cn[1:], name)
	return bx(typ, zeros(6), u16(1), zeros(16), u16(w), u16(h), u32(0x00480000), u32(0x00480000), u32(0), u16(1), cn, u16(0x0018), u16(0xffff), cat(children...))
}

func audioEntry(typ string, ch, bits uint16, rate uint32, children ...[]byte) []byte {
	return bx(typ, zeros(6), u16(1), zeros(8), u16(ch), u16(bits), u16(0), u16(0), u32(rate<<16), cat(children...))
}

var spsBase = []byte{0x67, 0x42, 0xc0, 0x1e, 0xd9, 0x00, 0xa0, 0x47, 0xfe, 0xc8}
var spsHigh = []byte{0x67, 0x64, 0x00, 0x1e, 0xac, 0xd9, 0x40, 0xa0, 0x2f, 0xf9, 0x70, 0x11, 0x00, 0x00, 0x03, 0x00, 0x01, 0x00, 0x00, 0x03, 0x00, 0x32, 0x0f, 0x16, 0x2d, 0x96}
var ppsAvc = []byte{0x68, 0xeb, 0xe3, 0xcb, 0x22, 0xc0}

func avcC(profile byte, sps []byte, ext []byte) []byte {
	return bx("avcC", u8(1, profile, sps[2], sps[3], 0xff, 0xe1), u16(uint16(len(sps))), sps, u8(1), u16(uint16(len(ppsAvc))), ppsAvc, ext)
}

func hvcC(arrays ...[]byte) []byte {
	return bx("hvcC", u8(1, 0x01), u32(0x60000000), u8(0x90, 0, 0, 0, 0, 0), u8(93), u16(0xf000), u8(0xfc, 0xfd, 0xf8, 0xf8), u16(0), u8(0x0f), u8(byte(len(arrays))), cat(arrays...))
}

func hvcArray(complete bool, typ byte, nalus ...[]byte) []byte {
	b := typ & 0x3f
	if complete {
		b |= 0x80
	}
	out := cat(u8(b), u16(uint16(len(nalus))))
	for _, n := range nalus {
		out = cat(out, u16(uint16(len(n))), n)
	}
	return out
}

func esds(sizeLen int, asc []byte) []byte {
	sz := func(n int) []byte {
		if sizeLen == 1 {
			return u8(byte(n))
		}
		return u8(0x80, 0x80, 0x80, byte(n))
	}
	dsi := cat(u8(5), sz(len(asc)), asc)
	dcd := cat(u8(0x40, 0x15), u24(0x000300), u32(128000), u32(96000), dsi)
	sl := cat(u8(6), sz(1), u8(2))
	es := cat(u16(1), u8(0), u8(4), sz(len(dcd)), dcd, sl)
	return fb("esds", 0, 0, u8(3), sz(len(es)), es)
}

// esdsLong builds an esds whose descriptors need size fields of more than one
// base-128 digit: form "min" uses the shortest size field for every
// descriptor, form "four" always four bytes (leading digits as they fall).
func esdsLong(form string, asc []byte) []byte {
	sz := func(n int) []byte {
		if form == "four" {
			return u8(0x80|byte(n>>21)&0x7f, 0x80|byte(n>>14)&0x7f, 0x80|byte(n>>7)&0x7f, byte(n)&0x7f)
		}
		var out []byte
		started := false
		for shift := 21; shift > 0; shift -= 7 {
			d := byte(n>>uint(shift)) & 0x7f
			if d != 0 || started {
				out = append(out, 0x80|d)
				started = true
			}
		}
		return append(out, byte(n)&0x7f)
	}
	dsi := cat(u8(5), sz(len(asc)), asc)
	dcd := cat(u8(0x40, 0x15), u24(0x000300), u32(128000), u32(96000), dsi)
	sl := cat(u8(6), sz(1), u8(2))
	es := cat(u16(1), u8(0), u8(4), sz(len(dcd)), dcd, sl)
	return fb("esds", 0, 0, u8(3), sz(len(es)), es)
}

// descSize writes the size of a descriptor (ISO/IEC 14496-1 8.3.3: base-128
// digits, most significant first, bit 7 = "more digits follow") in form "min"
// (shortest), "pad1" (one leading 0x80 digit more than needed, at most four) or
// "four" (always four digits).
func descSize(form string, n int) []byte {
	var digits []byte
	for v := n; ; v >>= 7 {
		digits = append([]byte{byte(v) & 0x7f}, digits...)
		if v>>7 == 0 {
			break
		}
	}
	want := len(digits)
	switch form {
	case "pad1":
		if want < 4 {
			want++
		}
	case "four":
		want = 4
	}
	for len(digits) < want {
		digits = append([]byte{0}, digits...)
	}
	for i := 0; i < len(digits)-1; i++ {
		digits[i] |= 0x80
	}
	return digits
}

// esFlags describes the optional part of an ES_Descriptor (14496-1 7.2.6.5):
// bits of flags: 0x80 streamDependenceFlag (dependsOn_ES_ID follows), 0x40
// URL_Flag (URLlength + URLstring follow), 0x20 OCRstreamFlag (OCR_ES_Id
// follows), low five bits streamPriority.
type esFlags struct {
	flags     byte
	dependsOn uint16
	url       string
	ocr       uint16
}

// esdsFlex builds an esds from the syntax of 14496-1: ES_Descriptor with the
// optional fields of fl, DecoderConfigDescriptor with a DecoderSpecificInfo of
// len(asc) bytes, SLConfigDescriptor (predefined 2). It returns the box and the
// payload sizes of the three nested descriptors (DecoderSpecificInfo,
// DecoderConfigDescriptor, ES_Descriptor).
func esdsFlex(form string, fl esFlags, asc []byte) (box []byte, payload [3]int) {
	dsi := cat(u8(5), descSize(form, len(asc)), asc)
	dcdBody := cat(u8(0x40, 0x15), u24(0x000300), u32(128000), u32(96000), dsi)
	dcd := cat(u8(4), descSize(form, len(dcdBody)), dcdBody)
	sl := cat(u8(6), descSize(form, 1), u8(2))
	es := cat(u16(1), u8(fl.flags))
	if fl.flags&0x80 != 0 {
		es = cat(es, u16(fl.dependsOn))
	}
	if fl.flags&0x40 != 0 {
		es = cat(es, u8(byte(len(fl.url))), []byte(fl.url))
	}
	if fl.flags&0x20 != 0 {
		es = cat(es, u16(fl.ocr))
	}
	es = cat(es, dcd, sl)
	return fb("esds", 0, 0, u8(3), descSize(form, len(es)), es), [3]int{len(asc), len(dcdBody), len(es)}
}

// esdsAt builds an esds in which the payload of the descriptor at level (0
// DecoderSpecificInfo, 1 DecoderConfigDescriptor, 2 ES_Descriptor) is exactly
// target bytes; nil if no DecoderSpecificInfo length gives that.
func esdsAt(form string, fl esFlags, level, target int) []byte {
	for n := target; n >= 0 && n > target-64; n-- {
		b, p := esdsFlex(form, fl, ascOf(n))
		if p[level] == target {
			return b
		}
	}
	return nil
}

// dec3Box builds an EC3SpecificBox (ETSI TS 102 366 F.6) bit by bit: data_rate(13) num_ind_sub(3), then per
// independent substream fscod(2) bsid(5) reserved(1) asvc(1) bsmod(3) acmod(3) lfeon(1) reserved(3) num_dep_sub(4)
// and chan_loc(9) if num_dep_sub > 0, else reserved(1). deps[i] is num_dep_sub of substream i.
func dec3Box(dataRate uint, deps []int, trailing []byte) []byte {
	var acc uint64
	nbits := 0
	var out []byte
	put := func(v uint, n int) {
		acc = acc<<uint(n) | uint64(v)&(1<<uint(n)-1)
		nbits += n
		for nbits >= 8 {
			out = append(out, byte(acc>>uint(nbits-8)))
			nbits -= 8
		}
	}
	put(dataRate, 13)
	put(uint(len(deps)-1), 3)
	for i, d := range deps {
		put(uint(i)%3, 2)   // fscod
		put(16, 5)          // bsid
		put(0, 1)           // reserved
		put(uint(i)&1, 1)   // asvc
		put(uint(i)%8, 3)   // bsmod
		put(uint(7-i)%8, 3) // acmod
		put(uint(i+1)&1, 1) // lfeon
		put(0, 3)           // reserved
		put(uint(d), 4)     // num_dep_sub
		if d > 0 {
			put(uint(0x101>>uint(i))&0x1ff, 9) // chan_loc
		} else {
			put(0, 1)
		}
	}
	return bx("dec3", out, trailing)
}

// ascOf is a DecoderSpecificInfo payload of n bytes that starts like an
// AudioSpecificConfig (AAC-LC, 48 kHz, stereo).
func ascOf(n int) []byte {
	return cat([]byte{0x11, 0x90}, seq(n, 0x21))[:n]
}

func dataBox(text string) []byte { return bx("data", u32(1), u32(0), []byte(text)) }

var kid1 = seq(16, 0x10)
var kid2 = seq(16, 0xa0)
var sysID = []byte{0xed, 0xef, 0x8b, 0xa9, 0x79, 0xd6, 0x4a, 0xce, 0xa3, 0xc8, 0x27, 0xdc, 0xd5, 0x1d, 0x21, 0xed}

func trun(ver byte, flags uint32, n int) []byte {
	p := u32(uint32(n))
	if flags&0x1 != 0 {
		p = cat(p, u32(0x000001a8))
	}
	if flags&0x4 != 0 {
		p = cat(p, u32(0x02000000))
	}
	for i := 0; i < n; i++ {
		if flags&0x100 != 0 {
			p = cat(p, u32(uint32(1000+i)))
		}
		if flags&0x200 != 0 {
			p = cat(p, u32(uint32(0x12345+7*i)))
		}
		if flags&0x400 != 0 {
			p = cat(p, u32(0x01010000+uint32(i)<<16))
		}
		if flags&0x800 != 0 {
			v := uint32(512 * i)
			if ver == 1 && i%2 == 1 {
				v = uint32(0xfffffe00) // negative offset in version 1
			}
			p = cat(p, u32(v))
		}
	}
	return fb("trun", ver, flags, p)
}

func tfhd(flags uint32) []byte {
	p := u32(7)
	if flags&0x1 != 0 {
		p = cat(p, u64(0x0000000100000abc))
	}
	if flags&0x2 != 0 {
		p = cat(p, u32(2))
	}
	if flags&0x8 != 0 {
		p = cat(p, u32(1024))
	}
	if flags&0x10 != 0 {
		p = cat(p, u32(0xabcdef))
	}
	if flags&0x20 != 0 {
		p = cat(p, u32(0x01010000))
	}
	return fb("tfhd", 0, flags, p)
}

func tfra(ver byte, lenSizes byte, n int) []byte {
	lt, lr, ls := (lenSizes>>4)&3, (lenSizes>>2)&3, lenSizes&3
	p := cat(u32(3), u32(uint32(lenSizes&0x3f)), u32(uint32(n)))
	put := func(v uint32, l byte) []byte { return u32(v)[3-l:] }
	for i := 0; i < n; i++ {
		if ver == 1 {
			p = cat(p, u64(uint64(0x100000000+90000*i)), u64(uint64(0x200000000+5000*i)))
		} else {
			p = cat(p, u32(uint32(90000*i)), u32(uint32(1000+5000*i)))
		}
		p = cat(p, put(uint32(1+i), lt), put(1, lr), put(uint32(1+i%3), ls))
	}
	return fb("tfra", ver, 0, p)
}

func sidx(ver byte, nrefs int) []byte {
	p := cat(u32(1), u32(90000))
	if ver == 0 {
		p = cat(p, u32(180000), u32(52))
	} else {
		p = cat(p, u64(0x100000000+180000), u64(0x100000034))
	}
	p = cat(p, u16(0), u16(uint16(nrefs)))
	for i := 0; i < nrefs; i++ {
		rt := uint32(i%2) << 31
		p = cat(p, u32(rt|uint32(10000+i)), u32(uint32(180000+i)), u32(0x90000000|uint32(i)))
	}
	return fb("sidx", ver, 0, p)
}

func senc(flags uint32, ivLen int, n int) []byte {
	p := u32(uint32(n))
	for i := 0; i < n; i++ {
		p = cat(p, seq(ivLen, byte(16*i)))
		if flags&2 != 0 {
			ns := 1 + i%2
			p = cat(p, u16(uint16(ns)))
			for k := 0; k < ns; k++ {
				p = cat(p, u16(uint16(100+k)), u32(uint32(2000+i)))
			}
		}
	}
	return fb("senc", 0, flags, p)
}

func lou(typ string, ver byte, bases int, meas int) []byte {
	var p []byte
	if ver >= 1 {
		p = u8(byte(bases) & 0x3f)
	} else {
		bases = 1
	}
	for i := 0; i < bases; i++ {
		if ver >= 1 {
			p = cat(p, u8(byte(3+i)&0x3f))
		}
		p = cat(p, u16(uint16(5+i)<<6|uint16(9+i)), u24(0x123<<12|0x456), u8(0x21), u8(byte(meas)))
		for k := 0; k < meas; k++ {
			p = cat(p, u8(byte(1+k), byte(0x40+k), 0x12))
		}
	}
	return fb(typ, ver, 0, p)
}

func builtBoxes() []Seed {
	var out []Seed
	add := func(typ, shape string, b []byte) {
		out = append(out, Seed{Name: fmt.Sprintf("built:%s[%s]", typ, shape), Kind: "built", Type: typ, Data: b})
	}

	// --- movie / track / media headers, both versions
	add("mvhd", "v0", fb("mvhd", 0, 0, u32(0xd0000001), u32(0xd0000002), u32(90000), u32(900000), u32(0x00010000), u16(0x0100), zeros(10), unity, zeros(24), u32(3)))
	add("mvhd", "v1", fb("mvhd", 1, 0, u64(0x1d0000001), u64(0x1d0000002), u32(90000), u64(0x100000000+900000), u32(0x00018000), u16(0x0080), zeros(10), unity, zeros(24), u32(0xfffffffe)))
	for _, fl := range []uint32{0, 1, 3, 7, 0xf} {
		add("tkhd", fmt.Sprintf("v0,f%x", fl), fb("tkhd", 0, fl, u32(0xd0000001), u32(0xd0000002), u32(2), u32(0), u32(900000), zeros(8), u16(1), u16(2), u16(0x0100), u16(0), unity, u32(1280<<16), u32(720<<16)))
	}
	add("tkhd", "v1", fb("tkhd", 1, 7, u64(0x1d0000001), u64(0x1d0000002), u32(0x80000001), u32(0), u64(0x100000000+900000), zeros(8), u16(0xffff), u16(0x7fff), u16(0), u16(0), unity, u32(1920<<16|0x8000), u32(1080<<16|1)))
	add("mdhd", "v0", fb("mdhd", 0, 0, u32(0xd0000001), u32(0xd0000002), u32(48000), u32(480000), u16(0x55c4), u16(0)))
	add("mdhd", "v1", fb("mdhd", 1, 0, u64(0x1d0000001), u64(0x1d0000002), u32(48000), u64(0x100000000+480000), u16(0x15c7), u16(0)))
	add("mehd", "v0", fb("mehd", 0, 0, u32(900000)))
	add("mehd", "v1", fb("mehd", 1, 0, u64(0x100000000+900000)))
	add("elst", "v0", fb("elst", 0, 0, u32(2), u32(1000), u32(0xffffffff), u16(1), u16(0), u32(9000), u32(2048), u16(1), u16(0)))
	add("elst", "v1", fb("elst", 1, 0, u32(2), u64(0x100000000+1000), u64(0xffffffffffffffff), u16(1), u16(0), u64(9000), u64(0x100000000+2048), u16(2), u16(0x8000)))
	add("edts", "elst", bx("edts", fb("elst", 0, 0, u32(1), u32(1000), u32(0), u16(1), u16(0))))
	add("hdlr", "vide", fb("hdlr", 0, 0, u32(0), []byte("vide"), zeros(12), str0("mp4ff video handler")))
	add("hdlr", "noname", fb("hdlr", 0, 0, u32(0), []byte("soun"), zeros(12), u8(0)))
	hdlrShapeBoxes(add) // name fields that are more than one C string, alone and in mdia/trak/moov/meta (built_r8c01.go)
	add("vmhd", "", fb("vmhd", 0, 1, u16(0x0040), u16(0x8000), u16(0x8001), u16(0xffff)))
	add("smhd", "", fb("smhd", 0, 0, u16(0xff00), u16(0)))
	add("nmhd", "", fb("nmhd", 0, 0))
	add("sthd", "", fb("sthd", 0, 0))
	add("elng", "", fb("elng", 0, 0, str0("sv-SE")))
	add("kind", "", fb("kind", 0, 0, str0("urn:mpeg:dash:role:2011"), str0("forced-subtitle")))
	add("kind", "empty-value", fb("kind", 0, 0, str0("urn:x"), str0("")))
	add("dref", "url-self", fb("dref", 0, 0, u32(1), fb("url ", 0, 1)))
	add("dref", "url-location", fb("dref", 0, 0, u32(2), fb("url ", 0, 0, str0("http://example.com/a.mp4")), fb("url ", 0, 1)))
	add("dinf", "", bx("dinf", fb("dref", 0, 0, u32(1), fb("url ", 0, 1))))

	// --- sample tables
	add("stts", "", fb("stts", 0, 0, u32(3), u32(10), u32(1024), u32(1), u32(0xffffffff), u32(0x80000000), u32(1)))
	add("stts", "empty", fb("stts", 0, 0, u32(0)))
	add("ctts", "v0", fb("ctts", 0, 0, u32(2), u32(3), u32(2048), u32(1), u32(0x7fffffff)))
	add("ctts", "v1", fb("ctts", 1, 0, u32(3), u32(3), u32(0xfffffc00), u32(1), u32(0x80000000), u32(2), u32(1024)))
	add("cslg", "v0", fb("cslg", 0, 0, u32(0xfffffc00), u32(0xfffffc00), u32(2048), u32(0), u32(0x7fffffff)))
	add("cslg", "v1", fb("cslg", 1, 0, u64(0xfffffffffffffc00), u64(0xfffffffffffffc00), u64(2048), u64(0x100000000), u64(0x7fffffffffffffff)))
	add("stss", "", fb("stss", 0, 0, u32(3), u32(1), u32(25), u32(0xffffffff)))
	add("stsc", "one-sdi", fb("stsc", 0, 0, u32(2), u32(1), u32(4), u32(1), u32(10), u32(2), u32(1)))
	add("stsc", "two-sdi", fb("stsc", 0, 0, u32(3), u32(1), u32(4), u32(1), u32(5), u32(2), u32(2), u32(9), u32(1), u32(1)))
	add("stsz", "uniform", fb("stsz", 0, 0, u32(417), u32(1000)))
	add("stsz", "table", fb("stsz", 0, 0, u32(0), u32(4), u32(1), u32(0), u32(0xffffffff), u32(70000)))
	add("stsz", "empty", fb("stsz", 0, 0, u32(0), u32(0)))
	add("stco", "", fb("stco", 0, 0, u32(3), u32(48), u32(0x7fffffff), u32(0xffffffff)))
	add("co64", "", fb("co64", 0, 0, u32(3), u64(48), u64(0x100000000), u64(0xffffffffffffffff)))
	add("co64", "empty", fb("co64", 0, 0, u32(0)))
	add("sdtp", "", fb("sdtp", 0, 0, u8(0x20, 0x10, 0x18, 0x64, 0xa9, 0xff, 0x00)))
	for _, v := range []byte{0, 1} {
		sz := func(x uint32) []byte {
			if v == 1 {
				return u32(x)
			}
			return u16(uint16(x))
		}
		// several entries, each with several sub-samples of distinct values
		{
			p := u32(3)
			for e := 0; e < 3; e++ {
				p = cat(p, u32(uint32(1+e)), u16(uint16(2+e)))
				for k := 0; k < 2+e; k++ {
					p = cat(p, sz(uint32(100*(e+1)+k)), u8(byte(10*e+k), byte(e)), u32(uint32(0x1000*(e+1)+k)))
				}
			}
			add("subs", fmt.Sprintf("v%d,3-entries", v), fb("subs", v, 0, p))
		}
		add("subs", fmt.Sprintf("v%d", v), fb("subs", v, 0, u32(2), u32(1), u16(2), sz(100), u8(1, 0), u32(0), sz(0xfff0), u8(255, 1), u32(0xdeadbeef), u32(5), u16(0)))
	}
	add("sbgp", "v0", fb("sbgp", 0, 0, []byte("roll"), u32(2), u32(10), u32(1), u32(5), u32(0)))
	add("sbgp", "v1", fb("sbgp", 1, 0, []byte("seig"), u32(0x12345678), u32(1), u32(25), u32(0x10001)))
	add("sgpd", "v1-roll", fb("sgpd", 1, 0, []byte("roll"), u32(2), u32(2), u16(0xffff), u16(3)))
	add("sgpd", "v1-rap", fb("sgpd", 1, 0, []byte("rap "), u32(1), u32(1), u8(0x83)))
	seig := cat(u8(0), u8(0x19), u8(1), u8(8), kid1)
	seigConst := cat(u8(0), u8(0x19), u8(1), u8(0), kid2, u8(8), seq(8, 0x50))
	add("sgpd", "v1-seig", fb("sgpd", 1, 0, []byte("seig"), u32(20), u32(1), seig))
	add("sgpd", "v1-seig-lengths", fb("sgpd", 1, 0, []byte("seig"), u32(0), u32(2), u32(20), seig, u32(29), seigConst))
	add("sgpd", "v2-roll", fb("sgpd", 2, 0, []byte("roll"), u32(2), u32(1), u32(1), u16(0xfffe)))
	add("sgpd", "v1-unknown", fb("sgpd", 1, 0, []byte("tele"), u32(1), u32(2), u8(0x80), u8(0x00)))
	add("sgpd", "v1-alst", fb("sgpd", 1, 0, []byte("alst"), u32(0), u32(1), u32(12), u16(2), u16(1), u32(5), u32(9)))
	for _, fl := range []uint32{0, 1} {
		aux := []byte{}
		if fl == 1 {
			aux = cat([]byte("cenc"), u32(0))
		}
		add("saiz", fmt.Sprintf("f%d,default", fl), fb("saiz", 0, fl, aux, u8(16), u32(25)))
		add("saiz", fmt.Sprintf("f%d,table", fl), fb("saiz", 0, fl, aux, u8(0), u32(3), u8(8, 24, 255)))
		add("saio", fmt.Sprintf("v0,f%d", fl), fb("saio", 0, fl, aux, u32(2), u32(1234), u32(0xffffffff)))
		add("saio", fmt.Sprintf("v1,f%d", fl), fb("saio", 1, fl, aux, u32(1), u64(0x100000000+1234)))
	}

	// --- sample entries and codec configuration
	add("avcC", "baseline", avcC(66, spsBase, nil))
	add("avcC", "high-ext", avcC(100, spsHigh, u8(0xfd, 0xf8, 0xf8, 0)))
	add("avcC", "high-noext", avcC(100, spsHigh, nil))
	add("avcC", "high422-ext", avcC(122, spsHigh, u8(0xfe, 0xfa, 0xfa, 0)))
	// profiles outside {66,77,88,100,110,122,144} also carry the four trailing bytes
	for _, prof := range []byte{244, 44, 118, 128, 83, 86, 138, 139, 134, 135} {
		add("avcC", fmt.Sprintf("profile%d-ext", prof), avcC(prof, spsHigh, u8(0xff, 0xfa, 0xf9, 0)))
	}
	vps := []byte{0x40, 0x01, 0x0c, 0x01, 0xff, 0xff, 0x01, 0x60, 0x00, 0x00, 0x03, 0x00, 0x90, 0x00, 0x00, 0x03, 0x00, 0x00, 0x03, 0x00, 0x5d, 0x95, 0x98, 0x09}
	sps5 := []byte{0x42, 0x01, 0x01, 0x01, 0x60, 0x00, 0x00, 0x03, 0x00, 0x90, 0x00, 0x00, 0x03, 0x00, 0x00, 0x03, 0x00, 0x5d, 0xa0, 0x02, 0x80, 0x80, 0x2d, 0x16, 0x59, 0x59, 0xa4, 0x93, 0x2b, 0xc0, 0x5a, 0x02}
	pps5 := []byte{0x44, 0x01, 0xc1, 0x72, 0xb4, 0x62, 0x40}
	add("hvcC", "3arrays", hvcC(hvcArray(true, 32, vps), hvcArray(true, 33, sps5), hvcArray(false, 34, pps5, pps5)))
	add("hvcC", "noarrays", hvcC())
	add("hvcC", "empty-array", hvcC(hvcArray(true, 32), hvcArray(true, 33, sps5), hvcArray(false, 34)))
	add("hvcC", "empty-array-last", hvcC(hvcArray(true, 33, sps5), hvcArray(true, 39)))
	// every field of the fixed hvcC part with values other than the Main-profile defaults (box header 8 bytes,
	// then configurationVersion at 8, profile byte at 9, ...)
	for _, v := range []struct {
		name string
		off  int
		val  []byte
	}{
		{"high-tier", 9, []byte{0x21}}, {"profile-space-1", 9, []byte{0x41}}, {"profile-space-3,tier,idc-31", 9, []byte{0xff}}, {"idc-4", 9, []byte{0x04}},
		{"compat-all", 10, []byte{0xff, 0xff, 0xff, 0xff}}, {"compat-low-bit", 10, []byte{0, 0, 0, 1}},
		{"constraint-rext", 14, []byte{0x9d, 0x08, 0, 0, 0, 0}}, {"constraint-all", 14, []byte{0xff, 0xff, 0xff, 0xff, 0xff, 0xff}}, {"constraint-last-bit", 14, []byte{0, 0, 0, 0, 0, 1}},
		{"level-255", 20, []byte{0xff}}, {"level-0", 20, []byte{0}},
		{"min-spatial-seg-4095", 21, []byte{0xff, 0xff}}, {"min-spatial-seg-1", 21, []byte{0xf0, 0x01}},
		{"parallelism-3", 23, []byte{0xff}}, {"chroma-3", 24, []byte{0xff}}, {"chroma-0", 24, []byte{0xfc}},
		{"bitdepth-luma-15", 25, []byte{0xff}}, {"bitdepth-chroma-15", 26, []byte{0xff}},
		{"avg-frame-rate-65535", 27, []byte{0xff, 0xff}}, {"avg-frame-rate-1", 27, []byte{0, 1}},
		{"cfr-3,layers-7,nested,len-4", 29, []byte{0xff}}, {"cfr-1,layers-1,len-4", 29, []byte{0x4b}}, {"cfr-0,layers-0,len-4", 29, []byte{0x03}},
	} {
		b := hvcC(hvcArray(true, 32, vps), hvcArray(true, 33, sps5), hvcArray(false, 34, pps5))
		copy(b[v.off:], v.val)
		add("hvcC", v.name, b)
	}
	av1cfg := cat(u8(0x81, 0x04, 0x0c, 0x00), []byte{0x0a, 0x0b, 0x00, 0x00, 0x00, 0x24, 0xcf, 0x7f, 0x0d, 0xbf, 0xff, 0x30, 0x08})
	add("av1C", "obus", bx("av1C", av1cfg))
	add("av1C", "delay", bx("av1C", u8(0x81, 0x25, 0xce, 0x15)))
	add("vpcC", "", fb("vpcC", 1, 0, u8(2, 31, 0xa3, 9, 16, 9), u16(0)))
	add("vpcC", "init-data", fb("vpcC", 1, 0, u8(0, 10, 0x82, 1, 1, 1), u16(3), u8(1, 2, 3)))
	add("SmDm", "", fb("SmDm", 0, 0, u16(34000), u16(16000), u16(13250), u16(34500), u16(7500), u16(3000), u16(15635), u16(16450), u32(10000000), u32(50)))
	add("CoLL", "", fb("CoLL", 0, 0, u16(1000), u16(400)))
	add("clap", "", bx("clap", u32(1280), u32(1), u32(720), u32(1), u32(0xfffffff6), u32(2), u32(0), u32(1)))
	add("pasp", "", bx("pasp", u32(4), u32(3)))
	add("btrt", "", bx("btrt", u32(65536), u32(5000000), u32(2500000)))
	add("colr", "nclx", bx("colr", []byte("nclx"), u16(9), u16(16), u16(9), u8(0x80)))
	add("colr", "rICC", bx("colr", []byte("rICC"), seq(24, 1)))
	add("colr", "prof", bx("colr", []byte("prof"), seq(8, 0xf0)))
	add("colr", "nclc", bx("colr", []byte("nclc"), u16(1), u16(1), u16(1)))
	add("avc1", "avcC+btrt+pasp+colr", visualEntry("avc1", 1280, 720, "mp4ff video packager", avcC(100, spsHigh, u8(0xfd, 0xf8, 0xf8, 0)), bx("btrt", u32(0), u32(5000000), u32(2500000)), bx("pasp", u32(1), u32(1)), bx("colr", []byte("nclx"), u16(1), u16(1), u16(1), u8(0))))
	add("avc3", "clap", visualEntry("avc3", 640, 360, "", avcC(66, spsBase, nil), bx("clap", u32(640), u32(1), u32(360), u32(1), u32(0), u32(1), u32(0), u32(1))))
	add("hvc1", "", visualEntry("hvc1", 1920, 1080, "hevc", hvcC(hvcArray(true, 32, vps), hvcArray(true, 33, sps5), hvcArray(true, 34, pps5))))
	add("hev1", "", visualEntry("hev1", 1920, 1080, "0123456789012345678901234567890", hvcC()))
	add("av01", "", visualEntry("av01", 3840, 2160, "av1", bx("av1C", av1cfg), fb("SmDm", 0, 0, zeros(16), u32(1000), u32(1)), fb("CoLL", 0, 0, u16(1000), u16(400))))
	add("vp08", "", visualEntry("vp08", 320, 240, "vp8", fb("vpcC", 1, 0, u8(0, 10, 0x80, 2, 2, 2), u16(0))))
	add("vp09", "", visualEntry("vp09", 1280, 720, "vp9", fb("vpcC", 1, 0, u8(2, 31, 0xa3, 9, 16, 9), u16(0)), fb("SmDm", 0, 0, seq(16, 1), u32(10000000), u32(50))))
	asc := []byte{0x11, 0x90}
	add("esds", "size1", esds(1, asc))
	add("esds", "size4", esds(4, []byte{0x2b, 0x11, 0x88, 0x00}))
	for _, n := range []int{100, 127, 128, 130, 300, 16383, 16384, 20000} {
		long := cat(asc, seq(n-2, 0x21))
		add("esds", fmt.Sprintf("dsi%d-min-sizes", n), esdsLong("min", long))
		add("esds", fmt.Sprintf("dsi%d-four-byte-sizes", n), esdsLong("four", long))
	}
	{
		// other descriptors between DecoderConfigDescriptor and SLConfigDescriptor, and after it
		dsi := cat(u8(5, 2), asc)
		dcd := cat(u8(0x40, 0x15), u24(0x000300), u32(128000), u32(96000), dsi)
		ipi := cat(u8(9, 2), u16(7))            // IPI_DescrPointer
		lang := cat(u8(0x43, 3), []byte("eng")) // LanguageDescriptor
		sl := cat(u8(6, 1, 2))
		es1 := cat(u16(1), u8(0), u8(4, byte(len(dcd))), dcd, ipi, sl)
		add("esds", "other-before-slconfig", fb("esds", 0, 0, u8(3, byte(len(es1))), es1))
		es2 := cat(u16(1), u8(0), u8(4, byte(len(dcd))), dcd, lang, sl, ipi)
		add("esds", "others-around-slconfig", fb("esds", 0, 0, u8(3, byte(len(es2))), es2))
		es3 := cat(u16(1), u8(0), u8(4, byte(len(dcd))), dcd, sl, lang)
		add("esds", "other-after-slconfig", fb("esds", 0, 0, u8(3, byte(len(es3))), es3))
	}
	// every nested descriptor (DecoderSpecificInfo, DecoderConfigDescriptor, ES_Descriptor) with a payload of
	// exactly 2^7-2 .. 2^7+1 and 2^14-2 .. 2^14+1 bytes: the values around which the base-128 size field changes
	// length, in the shortest form, with one padding digit, and with four digits
	for level, lname := range []string{"dsi", "dcd", "es"} {
		for _, target := range []int{126, 127, 128, 129, 16382, 16383, 16384, 16385} {
			for _, form := range []string{"min", "pad1", "four"} {
				if target > 1000 && form != "min" && (level != 2 || target == 16382 || target == 16385) {
					continue // the long ones in padded forms only for the outermost descriptor at the boundary itself
				}
				if b := esdsAt(form, esFlags{}, level, target); b != nil {
					add("esds", fmt.Sprintf("%s-payload%d-%s-sizes", lname, target, form), b)
				}
			}
		}
	}
	// the flag lattice of the ES_Descriptor: streamDependenceFlag, URL_Flag, OCRstreamFlag in all 8 combinations, each
	// with its dependent field present (URL strings of several lengths, the empty one included), with and without
	// streamPriority bits, in one-digit and four-digit size forms
	for f := 0; f < 8; f++ {
		for vi, url := range []string{"http://example.com/es/1", "", "u"} {
			if f&2 == 0 && vi > 0 {
				continue
			}
			fl := esFlags{flags: byte(f) << 5, dependsOn: 0x0a0b, url: url, ocr: 0x0102}
			if vi == 0 && f%3 == 1 {
				fl.flags |= 0x1f
			} else if vi == 0 && f%3 == 2 {
				fl.flags |= 0x05
			}
			for _, form := range []string{"min", "four"} {
				b, _ := esdsFlex(form, fl, asc)
				add("esds", fmt.Sprintf("es-flags%02x-url%d-%s-sizes", fl.flags, len(url), form), b)
			}
			// the same with the ES_Descriptor payload at the one-digit limit
			if b := esdsAt("min", fl, 2, 127); b != nil && vi == 0 {
				add("esds", fmt.Sprintf("es-flags%02x-payload127", fl.flags), b)
			}
		}
	}
	{
		// flagged ES_Descriptors where they live: mp4a inside stsd
		ocr, _ := esdsFlex("min", esFlags{flags: 0x20, ocr: 0x0102}, asc)
		depOcr, _ := esdsFlex("four", esFlags{flags: 0xa3, dependsOn: 7, ocr: 9}, asc)
		all, _ := esdsFlex("min", esFlags{flags: 0xe0, dependsOn: 2, url: "urn:x", ocr: 3}, asc)
		add("stsd", "mp4a-esds-ocr", fb("stsd", 0, 0, u32(1), audioEntry("mp4a", 2, 16, 48000, ocr)))
		add("stsd", "mp4a-esds-dep+ocr,mp4a-esds-all", fb("stsd", 0, 0, u32(2), audioEntry("mp4a", 2, 16, 48000, depOcr), audioEntry("mp4a", 1, 16, 44100, all, bx("btrt", u32(0), u32(128000), u32(96000)))))
		es127 := esdsAt("min", esFlags{}, 2, 127)
		add("mp4a", "esds-es-payload127", audioEntry("mp4a", 2, 16, 48000, es127))
	}
	add("mp4a", "esds", audioEntry("mp4a", 2, 16, 48000, esds(4, asc), bx("btrt", u32(0), u32(128000), u32(96000))))
	dac3 := bx("dac3", u8(0x10, 0x3d, 0x60))
	dec3a := bx("dec3", u8(0x06, 0x00, 0x20, 0x0f, 0x00))
	dec3b := bx("dec3", u8(0x0c, 0x00, 0x20, 0x0f, 0x02, 0x01))
	add("dac3", "", dac3)
	add("dec3", "nodep", dec3a)
	add("dec3", "dep", dec3b)
	add("dec3", "2sub", bx("dec3", u8(0x06, 0x01, 0x20, 0x0f, 0x00, 0x20, 0x05, 0x00)))
	// 1..8 independent substreams, each with or without dependent substreams (3 or 4 bytes per substream)
	for _, deps := range [][]int{{0, 0, 0}, {1, 0}, {0, 2}, {1, 1, 1}, {0, 1, 0, 2}, {0, 0, 0, 0, 0, 0, 0, 0}, {1, 0, 3, 0, 1, 0, 15, 1}} {
		name := ""
		for _, d := range deps {
			name += fmt.Sprintf("%x", d)
		}
		add("dec3", "deps-"+name, dec3Box(640, deps, nil))
	}
	add("dec3", "deps-01+trailing", dec3Box(768, []int{0, 1}, u8(0x01, 0x02)))
	add("ec-3", "3sub", audioEntry("ec-3", 6, 16, 48000, dec3Box(1024, []int{0, 1, 0}, nil)))
	add("ac-3", "", audioEntry("ac-3", 6, 16, 48000, dac3))
	add("ec-3", "", audioEntry("ec-3", 6, 16, 48000, dec3a, bx("btrt", u32(0), u32(640000), u32(448000))))
	add("enca", "sinf", audioEntry("enca", 2, 16, 44100, esds(1, asc), bx("sinf", bx("frma", []byte("mp4a")), fb("schm", 0, 0, []byte("cenc"), u32(0x00010000)), bx("schi", fb("tenc", 0, 0, u8(0, 0, 1, 8), kid1)))))
	add("encv", "sinf-cbcs", visualEntry("encv", 1280, 720, "enc", avcC(66, spsBase, nil), bx("sinf", bx("frma", []byte("avc1")), fb("schm", 0, 0, []byte("cbcs"), u32(0x00010000)), bx("schi", fb("tenc", 1, 0, u8(0, 0x19, 1, 0), kid2, u8(16), seq(16, 0x30))))))
	add("tenc", "v0,iv8", fb("tenc", 0, 0, u8(0, 0, 1, 8), kid1))
	add("tenc", "v0,iv16", fb("tenc", 0, 0, u8(0, 0, 1, 16), kid1))
	add("tenc", "v1,pattern,constiv", fb("tenc", 1, 0, u8(0, 0x19, 1, 0), kid2, u8(16), seq(16, 0x30)))
	add("tenc", "v1,constiv8", fb("tenc", 1, 0, u8(0, 0x00, 1, 0), kid2, u8(8), seq(8, 0x30)))
	add("tenc", "v0,unprotected", fb("tenc", 0, 0, u8(0, 0, 0, 0), zeros(16)))
	add("schm", "nouri", fb("schm", 0, 0, []byte("cenc"), u32(0x00010000)))
	add("schm", "uri", fb("schm", 0, 1, []byte("piff"), u32(0x00010001), str0("http://example.com/scheme")))
	add("frma", "", bx("frma", []byte("hvc1")))
	add("stpp", "3strings+btrt", bx("stpp", zeros(6), u16(1), str0("http://www.w3.org/ns/ttml"), str0("http://example.com/schema.xsd"), str0("image/png application/font"), bx("btrt", u32(0), u32(1000), u32(500))))
	add("stpp", "empty-optional", bx("stpp", zeros(6), u16(1), str0("http://www.w3.org/ns/ttml"), str0(""), str0("")))
	add("stpp", "namespace-only", bx("stpp", zeros(6), u16(1), str0("http://www.w3.org/ns/ttml"), str0("")))
	add("wvtt", "vttC+vlab+btrt", bx("wvtt", zeros(6), u16(1), bx("vttC", []byte("WEBVTT")), bx("vlab", []byte("source label")), bx("btrt", u32(0), u32(1000), u32(500))))
	add("evte", "btrt+silb", bx("evte", zeros(6), u16(1), bx("btrt", u32(0), u32(1000), u32(500)), fb("silb", 0, 0, u32(2), str0("urn:mpeg:dash:event:2012"), str0("1"), u8(1), str0("urn:scte:scte35:2013:bin"), str0(""), u8(0), u8(1))))
	add("silb", "noschemes", fb("silb", 0, 0, u32(0), u8(0)))
	add("silb", "1scheme", fb("silb", 0, 0, u32(1), str0("urn:x"), str0("v"), u8(0), u8(1)))
	add("stsd", "avc1+mp4a", fb("stsd", 0, 0, u32(2), visualEntry("avc1", 320, 180, "x", avcC(66, spsBase, nil)), audioEntry("mp4a", 1, 16, 22050, esds(1, asc))))
	add("stsd", "empty", fb("stsd", 0, 0, u32(0)))
	add("mime", "terminated", fb("mime", 0, 0, str0("application/mp4; codecs=\"stpp\"")))
	add("mime", "unterminated", fb("mime", 0, 0, []byte("text/plain")))

	// --- webvtt sample boxes
	add("vttc", "all", bx("vttc", bx("vsid", u32(0x01020304)), bx("iden", []byte("cue-1")), bx("ctim", []byte("00:00:01.000")), bx("sttg", []byte("line:10% align:start")), bx("payl", []byte("Hello <b>world</b>"))))
	add("vttc", "payl", bx("vttc", bx("payl", []byte("x"))))
	add("vtte", "", bx("vtte"))
	add("vtta", "", bx("vtta", []byte("NOTE a comment")))
	add("vsid", "", bx("vsid", u32(0xffffffff)))
	add("iden", "", bx("iden", []byte("id")))
	add("ctim", "", bx("ctim", []byte("00:00:00.000")))
	add("sttg", "", bx("sttg", []byte("position:50%")))
	add("payl", "", bx("payl", []byte("caf\xc3\xa9 \xe2\x99\xa5")))
	add("payl", "empty", bx("payl"))
	add("vlab", "", bx("vlab", []byte("label")))
	add("vttC", "", bx("vttC", []byte("WEBVTT\n")))
	add("cdat", "", bx("cdat", u8(0xfc, 0x94, 0x2c, 0xfc, 0x94, 0x2c)))

	// --- movie extends / fragments
	add("trex", "", fb("trex", 0, 0, u32(1), u32(1), u32(1024), u32(0), u32(0x01010000)))
	add("trep", "", fb("trep", 0, 0, u32(2)))
	add("trep", "child", fb("trep", 0, 0, u32(2), fb("kind", 0, 0, str0("urn:x"), str0("y"))))
	add("leva", "all-types", fb("leva", 0, 0, u8(5), u32(1), u8(0x00), []byte("roll"), u32(1), u8(0x81), []byte("tele"), u32(7), u32(2), u8(0x02), u32(2), u8(0x83), u32(3), u8(0x04), u32(9)))
	add("leva", "none", fb("leva", 0, 0, u8(0)))
	add("mvex", "mehd+trex+leva+trep", bx("mvex", fb("mehd", 1, 0, u64(0x100000000)), fb("trex", 0, 0, u32(1), u32(1), u32(0), u32(0), u32(0)), fb("trex", 0, 0, u32(2), u32(1), u32(1024), u32(100), u32(0x02000000)), fb("leva", 0, 0, u8(1), u32(1), u8(0x02)), fb("trep", 0, 0, u32(1))))
	add("mfhd", "", fb("mfhd", 0, 0, u32(0xffffffff)))
	add("tfdt", "v0", fb("tfdt", 0, 0, u32(0xfffffffe)))
	add("tfdt", "v1", fb("tfdt", 1, 0, u64(0x123456789abcdef0)))
	for fl := uint32(0); fl < 128; fl++ {
		f := fl&1 | (fl>>1&1)<<1 | (fl>>2&1)<<3 | (fl>>3&1)<<4 | (fl>>4&1)<<5 | (fl>>5&1)<<16 | (fl>>6&1)<<17
		add("tfhd", fmt.Sprintf("f%06x", f), tfhd(f))
	}
	for fl := uint32(0); fl < 64; fl++ {
		f := fl&1 | (fl>>1&1)<<2 | (fl>>2&1)<<8 | (fl>>3&1)<<9 | (fl>>4&1)<<10 | (fl>>5&1)<<11
		n := []int{3, 1, 0}[fl%3]
		add("trun", fmt.Sprintf("v%d,f%06x,n%d", fl>>5&1, f, n), trun(byte(fl>>5&1), f, n))
	}
	add("trun", "v1,all,n4", trun(1, 0xf01, 4))
	add("trun", "v0,all+first,n2", trun(0, 0xf05, 2))
	for _, v := range []byte{0, 1} {
		for _, n := range []int{0, 1, 3} {
			add("sidx", fmt.Sprintf("v%d,n%d", v, n), sidx(v, n))
		}
		for _, ls := range []byte{0x00, 0x15, 0x2a, 0x3f, 0x1b} {
			add("tfra", fmt.Sprintf("v%d,ls%02x", v, ls), tfra(v, ls, 2))
		}
		add("tfra", fmt.Sprintf("v%d,empty", v), tfra(v, 0, 0))
	}
	add("mfro", "", fb("mfro", 0, 0, u32(67)))
	add("mfra", "tfra+mfro", bx("mfra", tfra(1, 0x3f, 1), tfra(0, 0, 2), fb("mfro", 0, 0, u32(uint32(8+len(tfra(1, 0x3f, 1))+len(tfra(0, 0, 2))+16)))))
	add("ssix", "", fb("ssix", 0, 0, u32(2), u32(2), u8(1), u24(1000), u8(2), u24(0xffffff), u32(1), u8(0), u24(0)))
	add("ssix", "empty", fb("ssix", 0, 0, u32(0)))
	add("senc", "iv8", senc(0, 8, 3))
	add("senc", "iv16", senc(0, 16, 2))
	add("senc", "iv8+sub", senc(2, 8, 3))
	add("senc", "iv0+sub", senc(2, 0, 2))
	add("senc", "iv16+sub", senc(2, 16, 2))
	add("senc", "empty", senc(0, 0, 0))
	add("senc", "count-only", senc(0, 0, 5))
	for _, v := range []byte{0, 1} {
		kids := []byte{}
		if v == 1 {
			kids = cat(u32(2), kid1, kid2)
		}
		add("pssh", fmt.Sprintf("v%d,data", v), fb("pssh", v, 0, sysID, kids, u32(5), seq(5, 0x70)))
		add("pssh", fmt.Sprintf("v%d,nodata", v), fb("pssh", v, 0, sysID, kids, u32(0)))
	}
	add("pssh", "v1,nokids", fb("pssh", 1, 0, sysID, u32(0), u32(1), u8(0xaa)))
	add("emsg", "v0", fb("emsg", 0, 0, str0("urn:mpeg:dash:event:2012"), str0("1"), u32(90000), u32(45000), u32(0xffffffff), u32(77), []byte("payload")))
	add("emsg", "v1", fb("emsg", 1, 0, u32(90000), u64(0x100000000+45000), u32(90000), u32(78), str0("urn:scte:scte35:2013:bin"), str0(""), seq(12, 0xfc)))
	add("emsg", "v0,nodata", fb("emsg", 0, 0, str0("s"), str0(""), u32(1), u32(0), u32(0), u32(0)))
	add("emib", "", fb("emib", 0, 0, u32(0), u64(0xffffffffffffff00), u32(9000), u32(5), str0("urn:x"), str0("v"), []byte("msg")))
	add("emeb", "", bx("emeb"))
	for _, v := range []byte{0, 1} {
		for _, fl := range []uint32{0, 1, 2, 4, 8, 16, 0x18} {
			mt := u32(0xfffffff0)
			if v == 1 {
				mt = u64(0x1fffffff0)
			}
			add("prft", fmt.Sprintf("v%d,f%02x", v, fl), fb("prft", v, fl, u32(1), u64(0xe5d2a4f080000000), mt))
		}
	}
	trafEnc := bx("traf", tfhd(0x20038), fb("tfdt", 1, 0, u64(0x100000000)), trun(1, 0xf01, 3),
		fb("saiz", 0, 0, u8(0), u32(3), u8(16, 22, 16)), fb("saio", 0, 0, u32(1), u32(300)), senc(2, 8, 3),
		fb("sbgp", 0, 0, []byte("seig"), u32(1), u32(3), u32(0x10001)), fb("sgpd", 1, 0, []byte("seig"), u32(20), u32(1), seig),
		fb("subs", 0, 0, u32(1), u32(1), u16(1), u16(100), u8(0, 0), u32(0)))
	add("traf", "encrypted-all-boxes", trafEnc)
	// the same fragment shape with a senc that carries IVs only (no sub-sample flag), without moov
	for _, ivLen := range []int{8, 16} {
		tr := bx("traf", tfhd(0x20000), fb("tfdt", 0, 0, u32(0)), trun(0, 0x201, 3), senc(0, ivLen, 3))
		add("moof", fmt.Sprintf("senc-ivs-only-%d", ivLen), bx("moof", fb("mfhd", 0, 0, u32(2)), tr))
	}
	// senc boxes whose IV size has to be guessed (no saiz, no moov): 16-byte IVs that are zero-padded 8-byte
	// IVs, so that a first walk with 8-byte IVs reads the padding as subsample_count 0 and only fails on leftover bytes
	for _, n := range []int{1, 2, 3} {
		p := u32(uint32(n))
		for i := 0; i < n; i++ {
			p = cat(p, seq(8, byte(0x21+16*i)), zeros(8), u16(1), u16(uint16(10+i)), u32(uint32(300+i)))
		}
		tr := bx("traf", tfhd(0x20000), fb("tfdt", 0, 0, u32(0)), trun(0, 0x201, n), fb("senc", 0, 2, p))
		add("moof", fmt.Sprintf("senc-iv-size-guess,%d-zero-padded-ivs", n), bx("moof", fb("mfhd", 0, 0, u32(1)), tr))
	}
	add("moof", "2traf", bx("moof", fb("mfhd", 0, 0, u32(5)), trafEnc, bx("traf", tfhd(0x20000), fb("tfdt", 0, 0, u32(1000)), trun(0, 0x201, 2), trun(0, 0x305, 1))))

	// --- user data / metadata
	add("\xa9ART", "", bx("\xa9ART", dataBox("artist")))
	add("\xa9nam", "", bx("\xa9nam", dataBox("title \xc3\xa5\xc3\xa4\xc3\xb6")))
	add("\xa9cpy", "", bx("\xa9cpy", dataBox("(c) 2026")))
	add("\xa9too", "", bx("\xa9too", dataBox("Lavf60.3.100")))
	add("data", "", dataBox("plain"))
	add("ilst", "4items", bx("ilst", bx("\xa9nam", dataBox("n")), bx("\xa9ART", dataBox("a")), bx("\xa9cpy", dataBox("c")), bx("\xa9too", dataBox("t"))))
	add("meta", "full", fb("meta", 0, 0, fb("hdlr", 0, 0, u32(0), []byte("mdir"), []byte("appl"), zeros(8), u8(0)), bx("ilst", bx("\xa9too", dataBox("t")))))
	add("meta", "quicktime", bx("meta", fb("hdlr", 0, 0, u32(0), []byte("mdta"), zeros(12), u8(0)), bx("ilst")))
	add("desc", "", bx("desc", bx("free", u8(1, 2, 3)), dataBox("d")))
	add("udta", "meta+ludt+kind", bx("udta", fb("meta", 0, 0, fb("hdlr", 0, 0, u32(0), []byte("mdir"), zeros(12), u8(0)), bx("ilst", bx("\xa9nam", dataBox("n")))), bx("ludt", lou("tlou", 0, 1, 2), lou("alou", 0, 1, 1)), fb("kind", 0, 0, str0("urn:x"), str0("y"))))
	add("tlou", "v0", lou("tlou", 0, 1, 2))
	add("tlou", "v0,nomeas", lou("tlou", 0, 1, 0))
	add("tlou", "v1,2bases", lou("tlou", 1, 2, 1))
	add("alou", "v0", lou("alou", 0, 1, 3))
	add("alou", "v1", lou("alou", 1, 1, 2))
	add("ludt", "tlou+alou", bx("ludt", lou("tlou", 1, 1, 1), lou("alou", 0, 1, 1)))
	for _, t := range []string{"hint", "cdsc", "font", "hind", "vdep", "vplx", "subt", "dpnd", "ipir", "mpod", "sync"} {
		add(t, "", bx(t, u32(1), u32(0xffffffff)))
	}
	add("hint", "empty", bx("hint"))
	add("tref", "many", bx("tref", bx("hint", u32(1)), bx("cdsc", u32(2), u32(3)), bx("font", u32(4)), bx("hind", u32(5)), bx("vdep", u32(6)), bx("vplx", u32(7)), bx("subt", u32(8)), bx("dpnd", u32(9)), bx("ipir", u32(10)), bx("mpod", u32(11)), bx("sync", u32(12))))
	add("uuid", "tfxd-v0", bx("uuid", []byte{0x6d, 0x1d, 0x9b, 0x05, 0x42, 0xd5, 0x44, 0xe6, 0x80, 0xe2, 0x14, 0x1d, 0xaf, 0xf7, 0x57, 0xb2}, u32(0), u32(1000), u32(2000)))
	add("uuid", "tfxd-v1", bx("uuid", []byte{0x6d, 0x1d, 0x9b, 0x05, 0x42, 0xd5, 0x44, 0xe6, 0x80, 0xe2, 0x14, 0x1d, 0xaf, 0xf7, 0x57, 0xb2}, u32(0x01000000), u64(0x100000000+1000), u64(20000000)))
	add("uuid", "tfrf-v0", bx("uuid", []byte{0xd4, 0x80, 0x7e, 0xf2, 0xca, 0x39, 0x46, 0x95, 0x8e, 0x54, 0x26, 0xcb, 0x9e, 0x46, 0xa7, 0x9f}, u32(0), u8(2), u32(1000), u32(2000), u32(3000), u32(2000)))
	for _, n := range []int{0, 3, 254, 255} {
		tf := []byte{0xd4, 0x80, 0x7e, 0xf2, 0xca, 0x39, 0x46, 0x95, 0x8e, 0x54, 0x26, 0xcb, 0x9e, 0x46, 0xa7, 0x9f}
		p0 := cat(tf, u32(0), u8(byte(n)))
		p1 := cat(tf, u32(0x01000000), u8(byte(n)))
		for i := 0; i < n; i++ {
			p0 = cat(p0, u32(uint32(1000*(i+1))), u32(1000))
			p1 = cat(p1, u64(0x100000000+uint64(1000*i)), u64(1000))
		}
		add("uuid", fmt.Sprintf("tfrf-v0,%d-entries", n), bx("uuid", p0))
		add("uuid", fmt.Sprintf("tfrf-v1,%d-entries", n), bx("uuid", p1))
	}
	add("uuid", "tfrf-v1", bx("uuid", []byte{0xd4, 0x80, 0x7e, 0xf2, 0xca, 0x39, 0x46, 0x95, 0x8e, 0x54, 0x26, 0xcb, 0x9e, 0x46, 0xa7, 0x9f}, u32(0x01000000), u8(1), u64(0x100000000+1000), u64(20000000)))
	add("uuid", "unknown", bx("uuid", seq(16, 0x41), []byte("opaque")))
	add("uuid", "unknown-empty", bx("uuid", seq(16, 0x41)))
	add("free", "", bx("free", seq(5, 1)))
	add("free", "empty", bx("free"))
	add("skip", "", bx("skip", zeros(9)))
	add("ftyp", "", bx("ftyp", []byte("iso6"), u32(1), []byte("iso6cmfcdash")))
	add("ftyp", "nocompat", bx("ftyp", []byte("isom"), u32(0x200)))
	add("styp", "", bx("styp", []byte("msdh"), u32(0), []byte("msdhmsix")))
	add("mdat", "compact", bx("mdat", seq(32, 0)))
	add("mdat", "empty", bx("mdat"))
	add("mdat", "largesize", cat(u32(1), []byte("mdat"), u64(16+10), seq(10, 0x80)))
	return out
}
