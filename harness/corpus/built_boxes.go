package corpus

func builtBoxes() []Seed { return nil }
