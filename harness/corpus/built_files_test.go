package corpus

import (
	"bytes"
	"strings"
	"testing"

	"github.com/Eyevinn/mp4ff/bits"
	"github.com/Eyevinn/mp4ff/mp4"

	"verifharness/ref/boxwalk"
)

// Every hand-built file must be tiled by the reference walker; all but the
// ones built to be refused (an sbgp the decoder does not support) must be
// accepted by both file decode paths (a harness self-check, not a property of mp4ff).
func TestBuiltFilesAccepted(t *testing.T) {
	acc := 0
	for _, s := range BuiltFiles() {
		if _, err := boxwalk.Walk(s.Data); err != nil {
			t.Errorf("%s: reference walker: %v", s.Name, err)
			continue
		}
		refused := strings.Contains(s.Name, "sbgp-index0") || strings.Contains(s.Name, "sbgp-some-samples")
		_, err := mp4.DecodeFile(bytes.NewReader(s.Data))
		sr := bits.NewFixedSliceReader(s.Data)
		_, err2 := mp4.DecodeFileSR(sr)
		if err2 == nil {
			err2 = sr.AccError()
		}
		if (err == nil) != (err2 == nil) {
			t.Errorf("%s: DecodeFile: %v, DecodeFileSR: %v", s.Name, err, err2)
		}
		if err != nil && !refused {
			t.Errorf("%s: DecodeFile: %v", s.Name, err)
		}
		if err == nil {
			acc++
		}
	}
	t.Logf("%d of %d built files accepted", acc, len(BuiltFiles()))
}
