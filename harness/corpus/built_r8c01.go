package corpus

// Round 8 (C01): hdlr boxes whose name field is more than one C string, alone
// and inside mdia/trak/moov/meta; and whole hand-built files (BuiltFiles): the
// same tracks as progressive and fragmented files, and the family of
// encrypted fragmented files whose trafs carry sample-group boxes ('seig'
// descriptions with or without a mapping) next to the senc box.

import "fmt"

// hdlrNameFields are name fields of a HandlerBox (14496-12 8.4.3: everything
// after the 24 fixed bytes) as writers in the field produce them.
var hdlrNameFields = []struct {
	shape string
	field []byte
}{
	{"double-nul", []byte("VideoHandler\x00\x00")},
	{"nul-padded-to-4", []byte("SoundHandler\x00\x00\x00\x00")},
	{"two-strings", []byte("Apple\x00Video Media Handler\x00")},
	{"bytes-after-terminator", []byte("abc\x00def")},
	{"leading-nul", []byte("\x00Core Media Audio\x00")},
	{"only-nuls", []byte{0, 0, 0, 0}},
	{"pascal-count+nul", []byte("\x0cVideoHandler\x00")},
	{"inner-nul-utf8", []byte("Gestionnaire vid\xc3\xa9o\x00\xc2\xa9 2026\x00")},
}

func hdlrBox(handler string, nameField []byte) []byte {
	return fb("hdlr", 0, 0, u32(0), []byte(handler), zeros(12), nameField)
}

func emptyTables() []byte {
	return cat(fb("stts", 0, 0, u32(0)), fb("stsc", 0, 0, u32(0)), fb("stsz", 0, 0, u32(0), u32(0)), fb("stco", 0, 0, u32(0)))
}

// mdiaAround builds a media box around the given hdlr; handler vide gets an
// avc1 entry, everything else an mp4a entry (or the given sample entry).
func mdiaAround(handler string, hdlr []byte, entry []byte) []byte {
	return mdiaAroundTables(handler, hdlr, entry, emptyTables())
}

// sampleTables: n samples of 4 bytes in one chunk at file offset off.
func sampleTables(n int, off uint32) []byte {
	return cat(fb("stts", 0, 0, u32(1), u32(uint32(n)), u32(1024)), fb("stsc", 0, 0, u32(1), u32(1), u32(uint32(n)), u32(1)),
		fb("stsz", 0, 0, u32(4), u32(uint32(n))), fb("stco", 0, 0, u32(1), u32(off)))
}

func mdiaAroundTables(handler string, hdlr []byte, entry []byte, tables []byte) []byte {
	mh := fb("vmhd", 0, 1, u16(0), u16(0), u16(0), u16(0))
	if handler != "vide" {
		mh = fb("smhd", 0, 0, u16(0), u16(0))
	}
	if entry == nil {
		if handler == "vide" {
			entry = visualEntry("avc1", 320, 180, "", avcC(66, spsBase, nil))
		} else {
			entry = audioEntry("mp4a", 2, 16, 48000, esds(1, []byte{0x11, 0x90}))
		}
	}
	stbl := bx("stbl", fb("stsd", 0, 0, u32(1), entry), tables)
	minf := bx("minf", mh, bx("dinf", fb("dref", 0, 0, u32(1), fb("url ", 0, 1))), stbl)
	return bx("mdia", fb("mdhd", 0, 0, u32(0), u32(0), u32(48000), u32(0), u16(0x55c4), u16(0)), hdlr, minf)
}

func trakAround(id uint32, mdia []byte) []byte {
	tkhd := fb("tkhd", 0, 7, u32(0), u32(0), u32(id), u32(0), u32(0), zeros(8), u16(0), u16(0), u16(0x0100), u16(0), unity, u32(320<<16), u32(180<<16))
	return bx("trak", tkhd, mdia)
}

func moovAround(traks []byte, extra ...[]byte) []byte {
	mvhd := fb("mvhd", 0, 0, u32(0), u32(0), u32(1000), u32(0), u32(0x00010000), u16(0x0100), zeros(10), unity, zeros(24), u32(3))
	return bx("moov", mvhd, traks, cat(extra...))
}

func trexBox(id uint32) []byte {
	return fb("trex", 0, 0, u32(id), u32(1), u32(0), u32(0), u32(0))
}

// hdlrShapeBoxes: every name-field shape alone, and inside mdia, trak, moov
// (one and two tracks) and meta.
func hdlrShapeBoxes(add func(typ, shape string, b []byte)) {
	for i, nf := range hdlrNameFields {
		handler := []string{"vide", "soun"}[i%2]
		h := hdlrBox(handler, nf.field)
		add("hdlr", "name:"+nf.shape, h)
		md := mdiaAround(handler, h, nil)
		add("mdia", "hdlr-name:"+nf.shape, md)
		add("trak", "hdlr-name:"+nf.shape, trakAround(1, md))
		other := hdlrNameFields[(i+3)%len(hdlrNameFields)]
		two := cat(trakAround(1, md), trakAround(2, mdiaAround("soun", hdlrBox("soun", other.field), nil)))
		add("moov", "hdlr-name:"+nf.shape+"+"+other.shape, moovAround(two))
		add("meta", "hdlr-name:"+nf.shape, fb("meta", 0, 0, hdlrBox("mdir", nf.field), bx("ilst", bx("\xa9too", dataBox("t")))))
	}
}

// ---------------------------------------------------------------------------
// whole files

// seigFile describes one encrypted fragmented file: an enca track whose tenc
// announces tencIV-byte per-sample IVs (0: constant IV of constIV bytes), and
// per fragment a traf with a senc of n samples written with sencIV-byte IVs.
type seigFile struct {
	name    string
	tencIV  int
	constIV int
	sencIV  int    // IV size the senc table is written with (the size in force for the fragment)
	seigIV  int    // Per_Sample_IV_Size of the seig description(s)
	sub     bool   // senc with sub-sample table
	saiz    bool   // saiz + saio present
	groups  string // which sample-group boxes the traf carries
	early   bool   // sample-group boxes before the senc
	n       int
	frags   int
}

func seigEntry(ivSize int, kid []byte) []byte {
	if ivSize == 0 {
		return cat(u8(0), u8(0), u8(1), u8(0), kid, u8(8), seq(8, 0x50))
	}
	return cat(u8(0), u8(0), u8(1), u8(byte(ivSize)), kid)
}

// seigIV2 is the IV size of the two-entry description (never the constant-IV form).
func (s seigFile) seigIV2() int {
	if s.seigIV == 0 {
		return 8
	}
	return s.seigIV
}

func (s seigFile) groupBoxes() []byte {
	sgpd1 := fb("sgpd", 1, 0, []byte("seig"), u32(uint32(len(seigEntry(s.seigIV, kid2)))), u32(1), seigEntry(s.seigIV, kid2))
	sgpd2 := fb("sgpd", 1, 0, []byte("seig"), u32(20), u32(2), seigEntry(s.seigIV2(), kid2), seigEntry(s.seigIV2(), kid1))
	sbgp := func(typ string, pairs ...uint32) []byte {
		p := cat([]byte(typ), u32(uint32(len(pairs)/2)))
		for _, v := range pairs {
			p = cat(p, u32(v))
		}
		return fb("sbgp", 0, 0, p)
	}
	n := uint32(s.n)
	switch s.groups {
	case "sgpd-no-sbgp":
		return sgpd1
	case "sgpd2-no-sbgp":
		return sgpd2
	case "sgpd+sbgp-roll":
		return cat(sbgp("roll", n, 1), sgpd1)
	case "sgpd+roll-sgpd+roll-sbgp":
		return cat(sgpd1, sbgp("roll", n, 1), fb("sgpd", 1, 0, []byte("roll"), u32(2), u32(1), u16(0xffff)))
	case "sbgp+sgpd":
		return cat(sbgp("seig", n, 0x10001), sgpd1)
	case "sbgp+sgpd2":
		return cat(sbgp("seig", n, 0x10001), sgpd2)
	case "sbgp-no-sgpd":
		return sbgp("seig", n, 1) // refers to a description in the init segment's sample table
	case "sgpd+sbgp-index0":
		return cat(sbgp("seig", n, 0), sgpd1)
	case "sgpd+sbgp-some-samples":
		return cat(sbgp("seig", n/2, 0x10001, n-n/2, 0), sgpd1)
	}
	return nil
}

func (s seigFile) fragment(seqNr uint32) []byte {
	sencB := senc(0, s.sencIV, s.n)
	if s.sub {
		sencB = senc(2, s.sencIV, s.n)
	}
	grp := s.groupBoxes()
	build := func(dataOff, saioOff uint32) (moof []byte, sencDataAt int) {
		tr := cat(u32(uint32(s.n)), u32(dataOff))
		for i := 0; i < s.n; i++ {
			tr = cat(tr, u32(1024), u32(uint32(40+i)))
		}
		head := cat(fb("tfhd", 0, 0x20000, u32(1)), fb("tfdt", 1, 0, u64(uint64(seqNr-1)*uint64(s.n)*1024)), fb("trun", 0, 0x301, tr))
		if s.early {
			head = cat(head, grp)
		}
		if s.saiz {
			infoSize := s.sencIV
			var saiz []byte
			if s.sub {
				// per sample: IV + 2 + 6 * subsample_count (1 + i%2, as written by senc())
				tbl := make([]byte, s.n)
				for i := range tbl {
					tbl[i] = byte(s.sencIV + 2 + 6*(1+i%2))
				}
				saiz = fb("saiz", 0, 0, u8(0), u32(uint32(s.n)), tbl)
			} else {
				saiz = fb("saiz", 0, 0, u8(byte(infoSize)), u32(uint32(s.n)))
			}
			head = cat(head, saiz, fb("saio", 0, 0, u32(1), u32(saioOff)))
		}
		mfhd := fb("mfhd", 0, 0, u32(seqNr))
		sencDataAt = 8 + len(mfhd) + 8 + len(head) + 16
		body := cat(head, sencB)
		if !s.early {
			body = cat(body, grp)
		}
		return bx("moof", mfhd, bx("traf", body)), sencDataAt
	}
	m0, sencAt := build(0, 0)
	moof, _ := build(uint32(len(m0)+8), uint32(sencAt))
	var payload []byte
	for i := 0; i < s.n; i++ {
		payload = cat(payload, seq(40+i, byte(0x30+i)))
	}
	return cat(moof, bx("mdat", payload))
}

func (s seigFile) bytes() []byte {
	tenc := fb("tenc", 0, 0, u8(0, 0, 1, byte(s.tencIV)), kid1)
	if s.tencIV == 0 {
		tenc = fb("tenc", 1, 0, u8(0, 0x19, 1, 0), kid1, u8(byte(s.constIV)), seq(s.constIV, 0x30))
	}
	scheme := "cenc"
	if s.tencIV == 0 {
		scheme = "cbcs"
	}
	sinf := bx("sinf", bx("frma", []byte("mp4a")), fb("schm", 0, 0, []byte(scheme), u32(0x00010000)), bx("schi", tenc))
	entry := audioEntry("enca", 2, 16, 48000, esds(1, []byte{0x11, 0x90}), sinf)
	trak := trakAround(1, mdiaAround("soun", hdlrBox("soun", str0("mp4ff audio handler")), entry))
	moov := moovAround(trak, bx("mvex", trexBox(1)))
	out := cat(bx("ftyp", []byte("iso6"), u32(0), []byte("iso6cmfc")), moov)
	for f := 0; f < s.frags; f++ {
		out = cat(out, s.fragment(uint32(f+1)))
	}
	return out
}

// BuiltFiles returns whole hand-built files (several top-level boxes); they
// are file-level seeds (Kind "built-file") and not part of Built().
func BuiltFiles() []Seed {
	var out []Seed
	add := func(name string, b []byte) {
		out = append(out, Seed{Name: "built-file:" + name, Kind: "built-file", Type: "file", Data: b})
	}
	ftyp := bx("ftyp", []byte("isom"), u32(0x200), []byte("isomiso2mp41"))
	// progressive and fragmented files whose tracks have handler names of every shape
	for i, nf := range hdlrNameFields {
		other := hdlrNameFields[(i+5)%len(hdlrNameFields)]
		traks := cat(trakAround(1, mdiaAround("vide", hdlrBox("vide", nf.field), nil)), trakAround(2, mdiaAround("soun", hdlrBox("soun", other.field), nil)))
		udta := bx("udta", fb("meta", 0, 0, hdlrBox("mdir", other.field), bx("ilst", bx("\xa9nam", dataBox("n")))))
		prog := func(off uint32) []byte {
			tr := cat(trakAround(1, mdiaAroundTables("vide", hdlrBox("vide", nf.field), nil, sampleTables(2, off))),
				trakAround(2, mdiaAroundTables("soun", hdlrBox("soun", other.field), nil, sampleTables(2, off+8))))
			return cat(ftyp, moovAround(tr, udta))
		}
		add(fmt.Sprintf("progressive[hdlr-name:%s+%s]", nf.shape, other.shape), cat(prog(uint32(len(prog(0))+8)), bx("mdat", seq(16, 1))))
		frag := plainMoof(1, 1, 3)
		add(fmt.Sprintf("fragmented[hdlr-name:%s+%s]", nf.shape, other.shape),
			cat(ftyp, moovAround(traks, bx("mvex", trexBox(1), trexBox(2)), udta), frag))
	}
	// progressive files with the media mdat and empty mdat boxes before and after it (two non-empty ones are refused)
	{
		prog := func(off uint32) []byte {
			return cat(ftyp, moovAround(trakAround(1, mdiaAroundTables("soun", hdlrBox("soun", str0("SoundHandler")), nil, sampleTables(4, off)))))
		}
		head := prog(uint32(len(prog(0)) + 8))
		media := bx("mdat", seq(16, 1))
		add("progressive[mdat,empty-mdat]", cat(head, media, bx("mdat")))
		add("progressive[mdat,free,empty-mdat,empty-mdat]", cat(head, media, bx("free", zeros(4)), bx("mdat"), bx("mdat")))
		add("progressive[empty-mdat-first]", cat(ftyp, bx("mdat"), head[len(ftyp):], media))
		add("progressive[mdat,empty-largesize-mdat]", cat(head, media, cat(u32(1), []byte("mdat"), u64(16))))
	}
	// encrypted fragmented files: tenc IV size x seig IV size x sample-group boxes in the traf
	groups := []string{"none", "sgpd-no-sbgp", "sgpd2-no-sbgp", "sgpd+sbgp-roll", "sgpd+roll-sgpd+roll-sbgp", "sbgp+sgpd", "sbgp+sgpd2", "sbgp-no-sgpd",
		"sgpd+sbgp-index0", "sgpd+sbgp-some-samples"}
	k := 0
	for _, tencIV := range []int{16, 8, 0} {
		for _, seigIV := range []int{8, 16, 0} {
			for _, g := range groups {
				if g == "none" && seigIV != 8 {
					continue
				}
				for _, sub := range []bool{false, true} {
					k++
					s := seigFile{tencIV: tencIV, constIV: 8 + 8*(k%2), seigIV: seigIV, sub: sub, saiz: k%3 != 0, groups: g, early: k%4 == 1, n: 6 - k%3, frags: 1 + k%2}
					// the IV size in force: the seig description only where an sbgp maps the samples to it
					s.sencIV = tencIV
					if g == "sbgp+sgpd" {
						s.sencIV = seigIV
					} else if g == "sbgp+sgpd2" {
						s.sencIV = s.seigIV2()
					}
					if s.sencIV == 0 && !sub {
						s.saiz = false // no auxiliary information at all: no saiz/saio
					}
					s.name = fmt.Sprintf("encrypted[tenc-iv%d,seig-iv%d,%s,senc-iv%d,sub=%v,saiz=%v,groups-first=%v,%d-fragments]", tencIV, seigIV, g, s.sencIV, sub, s.saiz, s.early, s.frags)
					add(s.name, s.bytes())
				}
			}
		}
	}
	return out
}

// plainMoof is an unencrypted fragment (moof + mdat) of n samples for track id.
func plainMoof(seqNr, id uint32, n int) []byte {
	build := func(off uint32) []byte {
		tr := cat(u32(uint32(n)), u32(off))
		for i := 0; i < n; i++ {
			tr = cat(tr, u32(1024), u32(uint32(5+i)))
		}
		return bx("moof", fb("mfhd", 0, 0, u32(seqNr)), bx("traf", fb("tfhd", 0, 0x20000, u32(id)), fb("tfdt", 0, 0, u32(0)), fb("trun", 0, 0x301, tr)))
	}
	m := build(uint32(len(build(0)) + 8))
	var payload []byte
	for i := 0; i < n; i++ {
		payload = cat(payload, seq(5+i, byte(0x40+i)))
	}
	return cat(m, bx("mdat", payload))
}
