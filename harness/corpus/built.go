package corpus

// Built returns hand-built instances of box types that no testdata file
// contains. (Filled in built_boxes.go.)
func Built() []Seed { return builtBoxes() }
