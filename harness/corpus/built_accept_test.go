package corpus

import (
	"bytes"
	"testing"

	"github.com/Eyevinn/mp4ff/bits"
	"github.com/Eyevinn/mp4ff/mp4"
)

// Every hand-built instance must be accepted by both box decode paths and
// consumed entirely (a harness self-check, not a property of mp4ff).
func TestBuiltAccepted(t *testing.T) {
	reg, _ := mp4.VerifRegisteredBoxTypes()
	have := map[string]bool{}
	for _, s := range builtBoxes() {
		have[s.Type] = true
		b, err := mp4.DecodeBox(0, bytes.NewReader(s.Data))
		if err != nil {
			t.Errorf("%s: DecodeBox: %v", s.Name, err)
			continue
		}
		if b.Type() != s.Type || b.Size() != uint64(len(s.Data)) {
			t.Errorf("%s: decoded %s size %d, built %d bytes", s.Name, b.Type(), b.Size(), len(s.Data))
		}
		sr := bits.NewFixedSliceReader(s.Data)
		_, err = mp4.DecodeBoxSR(0, sr)
		if err != nil || sr.AccError() != nil {
			t.Errorf("%s: DecodeBoxSR: %v %v", s.Name, err, sr.AccError())
		}
		var buf bytes.Buffer
		if err := b.Encode(&buf); err != nil {
			t.Errorf("%s: Encode: %v", s.Name, err)
		} else if !bytes.Equal(buf.Bytes(), s.Data) {
			t.Logf("%s: re-encode differs (C01 decides whether that is allowed)", s.Name)
		}
	}
	c, err := Load("/repo")
	if err != nil {
		t.Fatal(err)
	}
	present := c.TypesPresent()
	for _, r := range reg {
		if present[r] == 0 {
			t.Errorf("registered type %q has no seed", r)
		}
	}
}
