#!/bin/bash
# run.sh <Cxx> <quick|thorough> | run.sh <Cxx> --replay <file>
# Rebuilds the harness (and, where a monitor drives tools, the tool binaries)
# from /repo's current working tree with the `verif` build tag, then runs the
# monitor. Exit: 0 held, 1 violation, 2 observed nothing, 3 build/harness failure.
set -u
ID="${1:?usage: run.sh Cxx quick|thorough}"
shift
VERIF_DIR="$(cd "$(dirname "$0")" && pwd)"
export VERIF_DIR
export GOFLAGS=-mod=mod GOPROXY=off GOSUMDB=off GOTOOLCHAIN=local
REPO="${VERIF_REPO:-/repo}"
lc="$(echo "$ID" | tr 'A-Z' 'a-z')"
BIN="$VERIF_DIR/bin"
mkdir -p "$BIN" "$VERIF_DIR/evidence"
cd "$VERIF_DIR/harness" || exit 3
MODFLAG=""
if [ "$REPO" != "/repo" ]; then
  # validation against a scratch copy: alternate modfile with the replace redirected
  tag="$(echo "$REPO" | md5sum | cut -c1-8)"
  sed "s#=> /repo#=> $REPO#" go.mod > "go.alt.$tag.mod"
  cp "$REPO/go.sum" "go.alt.$tag.sum" 2>/dev/null || cp go.sum "go.alt.$tag.sum"
  MODFLAG="-modfile=go.alt.$tag.mod"
  BIN="$VERIF_DIR/bin/alt.$tag"
  mkdir -p "$BIN"
fi
export VERIF_BIN="$BIN"
RACE=""
case "$ID" in C20) RACE="-race";; esac
if ! go build $MODFLAG $RACE -tags verif -o "$BIN/$lc" "./cmd/$lc" 2> "$BIN/$lc.build.log"; then
  echo "BUILD-FAILED property=$ID (see $BIN/$lc.build.log)"; head -30 "$BIN/$lc.build.log"; exit 3
fi
# tool binaries for the monitors that drive them
case "$ID" in C04|C06|C07|C10|C11|C12|C16)
  mkdir -p "$BIN/tools"
  if ! (cd "$REPO" && go build -tags verif -o "$BIN/tools/" ./cmd/... ./examples/... ) 2> "$BIN/tools.build.log"; then
    echo "BUILD-FAILED property=$ID tools (see $BIN/tools.build.log)"; head -30 "$BIN/tools.build.log"; exit 3
  fi;;
esac
[ -n "$MODFLAG" ] && rm -f "go.alt.$tag.mod" "go.alt.$tag.sum"
cd "$VERIF_DIR" || exit 3
exec "$BIN/$lc" "$@"
