#!/bin/bash
# per-patch check: every witness of the patch's keys reproduces on HEAD and not on HEAD + that patch alone
export GOFLAGS=-mod=mod GOPROXY=off GOSUMDB=off GOTOOLCHAIN=local
cd /verif
WIT=/verif/fixes/C16-round5-witnesses
W=/tmp/c16r5-3   # scratch worktree of /repo HEAD: git -C /repo worktree add --detach $W HEAD (remove afterwards)
fn() { echo "$1" | sed 's#[^A-Za-z0-9_.()*-]#_#g'; }
check() { # patch key...
  p=$1; shift
  git -C $W apply /verif/fixes/C16-$p.patch || { echo "$p: does not apply"; return; }
  for k in "$@"; do
    f=$WIT/$(fn "$k").json
    [ -f "$f" ] || { echo "$p: no witness for $k"; continue; }
    h=$(./run.sh C16 --replay "$f" 2>&1 | grep -F -c "REPRODUCED key=$k")
    q=$(VERIF_REPO=$W ./run.sh C16 --replay "$f" 2>&1 | grep -F -c "REPRODUCED key=$k")
    echo "$p | $k | HEAD: $([ $h -gt 0 ] && echo REPRODUCED || echo not-reproduced) | HEAD+patch: $([ $q -gt 0 ] && echo REPRODUCED || echo not-reproduced)"
  done
  git -C $W apply -R /verif/fixes/C16-$p.patch
}
N=tool/mp4ff-nallister; P=tool/mp4ff-pslister
check nallister-sample-outside-mdat "$N/main.parseProgressiveMp4/slice"
check pslister-sample-outside-mdat "$P/main.parseMp4File/slice" "$P/main.parseMp4File/index"
check nallister-chunk-number-outside-stco "$N/main.getChunkOffset/index"
check mp4-stsc-chunknr-from-samplenr-checks "$N/mp4.(*StscBox).ChunkNrFromSampleNr/index" "$N/mp4.(*StscBox).ChunkNrFromSampleNr/divide"
check nallister-time-tables-shorter-than-stsz "$N/mp4.(*SttsBox).GetDecodeTime/index" "$N/mp4.(*CttsBox).GetCompositionTimeOffset/index"
check mp4-fragment-getfullsamples-checks "$N/mp4.(*TrunBox).GetFullSamples/slice" "$P/mp4.(*TrunBox).GetFullSamples/slice" "$N/mp4.(*Fragment).GetFullSamples/nil-deref" "$P/mp4.(*Fragment).GetFullSamples/nil-deref" "$N/mp4.(*TfhdBox).HasDefaultSampleDuration/nil-deref"
check nallister-missing-boxes "$N/main.findFirstVideoTrak/nil-deref" "$N/main.parseProgressiveMp4/nil-deref" "$N/main.parseFragmentedMp4/nil-deref" "$N/mp4.(*MdatBox).HeaderSize/nil-deref" "$N/mp4.(*MvexBox).GetTrex/nil-deref" "$N/mp4.(*StscBox).FindEntryNrForSampleNr/nil-deref" "$N/mp4.(*SttsBox).GetDecodeTime/nil-deref"
check pslister-missing-boxes "$P/main.parseMp4File/nil-deref" "$P/main.parseMp4Init/nil-deref" "$P/mp4.(*MdatBox).HeaderSize/nil-deref" "$P/mp4.(*StszBox).GetSampleSize/nil-deref"
check nallister-quadratic-sample-line "$N/hang/cpu"
rm -rf /verif/bin/alt.$(echo "$W" | md5sum | cut -c1-8)
