#!/bin/bash
export GOFLAGS=-mod=mod GOPROXY=off GOSUMDB=off GOTOOLCHAIN=local
cd /verif
for d in "$@"; do
  W=/tmp/c16r5-sd-$d
  git -C /repo worktree add -q --detach $W HEAD || { echo "$d: worktree failed"; continue; }
  ok=1
  for p in nallister-sample-outside-mdat pslister-sample-outside-mdat nallister-chunk-number-outside-stco mp4-stsc-chunknr-from-samplenr-checks nallister-time-tables-shorter-than-stsz mp4-fragment-getfullsamples-checks nallister-missing-boxes pslister-missing-boxes nallister-quadratic-sample-line; do
    git -C $W apply /verif/fixes/C16-$p.patch || ok=0
  done
  git -C $W apply /verif/seeded/C16-$d/patch.diff || ok=0
  if [ $ok = 1 ]; then
    s=$(date +%s)
    VERIF_REPO=$W VERIF_SEED=1 VERIF_SHARDS=8 ./run.sh C16 quick > /tmp/c16r5-sd-$d.txt 2>&1
    rc=$?
    e=$(date +%s)
    echo "== C16-$d exit=$rc wall=$((e-s))s keys: $(grep '  key:' /tmp/c16r5-sd-$d.txt | sed 's/  key: //' | sort -u | tr '\n' ' ')"
  else
    echo "== C16-$d: patch did not apply"
  fi
  rm -rf /verif/bin/alt.$(echo "$W" | md5sum | cut -c1-8)
  git -C /repo worktree remove --force $W
done
