#!/bin/bash
# applyfix.sh <patch> <commit message>: apply a reviewed fix patch to /repo as one "fix:" commit
set -e
export GOFLAGS=-mod=mod GOPROXY=off GOSUMDB=off GOTOOLCHAIN=local
cd /repo
git apply --index "$1"
test -z "$(gofmt -l $(git diff --cached --name-only | grep '\.go$'))"
go build ./...
git commit -q -m "$2"
git log --oneline | head -1
