#!/usr/bin/env python3
"""evalseed.py <Cxx> <srcdir> [tier]: confirm one seeded change and run the property's check against it.

srcdir holds patch.diff, README.txt and demo_test.go or demo/main.go (as written by a
seeding sub-agent). Steps, all in a scratch worktree of /repo (never /repo itself):
  1. patch applies, `go build ./...`, the pinned suite `go test -vet=off -count=1 ./...` passes;
  2. the demonstration fails with the change and passes without it;
  3. `VERIF_REPO=<worktree> ./run.sh Cxx <tier>` — exit status and violation keys are recorded.
If 1 and 2 hold the change is kept as /verif/seeded/<Cxx>-<name>/ (patch.diff, demo, README.txt, meta.json).
"""
import json, os, re, shutil, subprocess, sys, hashlib

ENV = dict(os.environ, GOFLAGS="-mod=mod", GOPROXY="off", GOSUMDB="off", GOTOOLCHAIN="local")

def sh(cmd, cwd=None, env=None, timeout=3600):
    p = subprocess.run(cmd, shell=True, cwd=cwd, env=env or ENV, capture_output=True, text=True, errors="replace", timeout=timeout)
    return p.returncode, (p.stdout + p.stderr)

def main():
    prop, src = sys.argv[1], os.path.abspath(sys.argv[2])
    tier = sys.argv[3] if len(sys.argv) > 3 else "quick"
    name = os.path.basename(src.rstrip("/"))
    wt = "/tmp/ev-%s-%s" % (prop, name)
    sh("git -C /repo worktree remove --force %s" % wt)
    shutil.rmtree(wt, ignore_errors=True)
    rc, out = sh("git -C /repo worktree add -q %s HEAD" % wt)
    assert rc == 0, out
    meta = {"property": prop, "source": src, "ran": []}
    try:
        patch = os.path.join(src, "patch.diff")
        rc, out = sh("git apply %s" % patch, cwd=wt)
        meta["patch_applies"] = rc == 0
        if rc != 0:
            meta["error"] = out[-800:]
            return finish(meta, prop, name, src, keep=False)
        rc, out = sh("go build ./...", cwd=wt)
        meta["builds"] = rc == 0
        rc, out = sh("go test -vet=off -count=1 ./... 2>&1 | grep -v '^ok\\|no test files'", cwd=wt)
        meta["suite_passes"] = out.strip() == ""
        meta["ran"].append("go build ./... && go test -vet=off -count=1 ./... (with the change)")
        if not meta["suite_passes"]:
            meta["suite_output"] = out[-1500:]
        # demonstration
        demo_cmd, cleanup = place_demo(src, wt)
        meta["demo_cmd"] = demo_cmd
        rc_with, out_with = sh(demo_cmd, cwd=wt)
        sh("git apply -R %s" % patch, cwd=wt)
        rc_without, out_without = sh(demo_cmd, cwd=wt)
        sh("git apply %s" % patch, cwd=wt)
        for c in cleanup:
            shutil.rmtree(c, ignore_errors=True) if os.path.isdir(c) else os.path.exists(c) and os.remove(c)
        meta["demo_fails_with_change"] = rc_with != 0
        meta["demo_passes_without_change"] = rc_without == 0
        meta["demo_output_with"] = out_with[-1200:]
        if rc_without != 0:
            meta["demo_output_without"] = out_without[-1200:]
        meta["ran"].append(demo_cmd + " (with and without the change)")
        # the check
        env = dict(ENV, VERIF_REPO=wt)
        rc, out = sh("./run.sh %s %s" % (prop, tier), cwd="/verif", env=env, timeout=7200)
        keys = re.findall(r"^  key: (.*)$", out, re.M)
        meta["check_cmd"] = "VERIF_REPO=%s ./run.sh %s %s" % (wt, prop, tier)
        meta["check_exit"] = rc
        meta["check_violation_keys"] = keys[:20]
        meta["check_summary"] = out.strip().splitlines()[-1][:300] if out.strip() else ""
        meta["ran"].append(meta["check_cmd"])
        tag = hashlib.md5((wt + "\n").encode()).hexdigest()[:8]
        shutil.rmtree("/verif/bin/alt.%s" % tag, ignore_errors=True)
        keep = meta["builds"] and meta["suite_passes"] and meta["demo_fails_with_change"] and meta["demo_passes_without_change"]
        return finish(meta, prop, name, src, keep)
    finally:
        sh("git -C /repo worktree remove --force %s" % wt)
        shutil.rmtree(wt, ignore_errors=True)

def place_demo(src, wt):
    """copies the demonstration into the worktree; returns (command, cleanup paths)"""
    t = os.path.join(src, "demo_test.go")
    if os.path.exists(t):
        txt = open(t).read()
        m = re.search(r"^package\s+(\w+)", txt, re.M)
        pkg = m.group(1)
        base = pkg[:-5] if pkg.endswith("_test") else pkg
        readme = open(os.path.join(src, "README.txt")).read() if os.path.exists(os.path.join(src, "README.txt")) else ""
        # directory: prefer an explicit hint in README ("copy into <dir>/"), else by package name
        cands = [d for d in re.findall(r"(?:into|to|in)\s+`?(?:WORKTREE/|/tmp/seed\d*-C\d+/)?([\w/.-]+?)/?`?[\s.,)]", readme) if os.path.isdir(os.path.join(wt, d))]
        d = None
        for c in cands:
            if os.path.basename(c.rstrip("/")) in (base, base.replace("_", "-")) or c.endswith(base):
                d = c
                break
        if d is None:
            for root, dirs, files in os.walk(wt):
                if os.path.basename(root) == base and any(f.endswith(".go") for f in files):
                    d = os.path.relpath(root, wt)
                    break
        if d is None:
            # e.g. "cp .../demo_test.go /tmp/seed-Cxx/cmd/mp4ff-crop/demo_test.go" or "go test ... ./cmd/mp4ff-crop"
            for m2 in re.finditer(r"(?:/tmp/seed\d*-C\d+/|\./|WORKTREE/|\s|^)((?:cmd|examples|mp4|avc|hevc|sei|aac|av1|bits)(?:/[\w.-]+)*)", readme, re.M):
                cand = m2.group(1)
                while cand and not os.path.isdir(os.path.join(wt, cand)):
                    cand = os.path.dirname(cand)
                if cand and any(f.endswith(".go") for f in os.listdir(os.path.join(wt, cand))):
                    if base == "main" and not (cand.startswith("cmd/") or cand.startswith("examples/")):
                        continue  # a package main demo belongs to a tool directory
                    d = cand
                    break
        if d is None and cands:
            d = cands[0]
        dst = os.path.join(wt, d, "zz_seed_demo_test.go")
        shutil.copy(t, dst)
        names = re.findall(r"^func (Test\w+)\(", txt, re.M)
        run = "|".join(names) if names else "."
        return "go test -vet=off -count=1 -run '^(%s)$' ./%s/" % (run, d), [dst]
    m = os.path.join(src, "demo", "main.go")
    if os.path.exists(m):
        dst = os.path.join(wt, "cmd", "zz_seed_demo")
        shutil.copytree(os.path.join(src, "demo"), dst)
        return "go run ./cmd/zz_seed_demo", [dst]
    raise SystemExit("no demonstration found in " + src)

def finish(meta, prop, name, src, keep):
    meta["kept"] = keep
    caught = meta.get("check_exit") == 1
    meta["caught_by_check"] = caught
    print(json.dumps({k: meta[k] for k in meta if k not in ("demo_output_with", "demo_output_without", "suite_output")}, indent=1))
    if keep:
        dst = "/verif/seeded/%s-%s" % (prop, name)
        shutil.rmtree(dst, ignore_errors=True)
        os.makedirs(dst)
        for f in ("patch.diff", "README.txt", "demo_test.go"):
            if os.path.exists(os.path.join(src, f)):
                shutil.copy(os.path.join(src, f), dst)
        if os.path.isdir(os.path.join(src, "demo")):
            shutil.copytree(os.path.join(src, "demo"), os.path.join(dst, "demo"))
        readme = open(os.path.join(src, "README.txt")).read() if os.path.exists(os.path.join(src, "README.txt")) else ""
        meta["needs_to_manifest"] = readme[:1500]
        json.dump(meta, open(os.path.join(dst, "meta.json"), "w"), indent=1)

main()
