#!/usr/bin/env python3
"""Rewrites the "fixed" list of known_findings.json from the fix: commits in /repo.
The property of each fix commit is given by the first matching keyword below."""
import json, subprocess

RULES = [  # (substring of the commit subject, property ids)
 ("ContainsSencBox", "C01"),
 ("(untrusted input)", "C16"), ("segmenter example", "C11"), ("resegmenter example", "C11"), ("Fragmentify lost", "C11"),
 ("ParseReadSenc panicked", "C04"), ("lazy-mdat mode looped", "C04"),
 ("mp4ff-crop", "C10"), ("GetParameterSetsFromByteStream", "C14"),
 ("DecodePicTimingHevcSEI", "C17"), ("SEI type 4/5", "C17"),
 ("avc PPS", "C15"), ("avc slice_group_change_cycle", "C15"), ("hevc slice", "C15"), ("hevc colour mapping", "C15"),
 ("VUI with aspect_ratio_idc", "C15"), ("CreateAVCDecConfRec", "C15/C19"), ("avcC EncodeSW", "C02/C19"),
 ("SetWvttDescriptor", "C19"), ("SetAACDescriptor", "C19"), ("AddEmptyTrack", "C19"), ("language tag", "C19"),
 ("guessed per-sample IV size", "C06"), ("RemoveEncryptionBoxes", "C06"), ("saiz sample_info_size", "C07"),
 ("avc.ParseSliceHeader looked up the SPS", "C07/C15"),
 ("NewSdtpEntry", "C09"), ("GetTimeCode", "C09"), ("GetSampleData", "C09"),
 ("CopySampleData", "C08"), ("ReadData/CopyData", "C08"),
 ("UpdateSidx", "C12"), ("emsg before a moof", "C12"), ("MediaSegment.Size", "C02/C12"),
 ("OptimizeTrun", "C05"), ("segment-mode re-encoding", "C12"), ("mp4ff-nallister", "C16"), ("mp4ff-pslister", "C16"), ("StscBox.ChunkNrFromSampleNr panicked", "C16"), ("Fragment.GetFullSamples panicked", "C16"),
 ("first moof/emsg is not at the position", "C04/C05/C12"), ("more moof boxes than tfra entries", "C04/C12"),
]
DEFAULT = "C04"
# C16 fixes are recognised by these keywords
RULES += [("hevc.ParseSliceHeader", "C16"), ("avc.", "C16"), ("hevc.", "C16"), ("sei.", "C16"), ("aac.", "C16"), ("av1.", "C16")]

def main():
    out = subprocess.run(["git", "-C", "/repo", "log", "--reverse", "--format=%h %s"], capture_output=True, text=True).stdout
    fixed = []
    for line in out.splitlines():
        h, _, s = line.partition(" ")
        if not s.startswith("fix:"):
            continue
        prop = DEFAULT
        for kw, p in RULES:
            if kw in s:
                prop = p
                break
        fixed.append("fixed: property=%s %s %s" % (prop, h, s[len("fix:"):].strip()))
    kf = json.load(open("/verif/known_findings.json"))
    kf["fixed"] = fixed
    json.dump(kf, open("/verif/known_findings.json", "w"), indent=1)
    print(len(fixed), "fixed entries")

main()
