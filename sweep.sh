#!/bin/bash
# sweep.sh "<props>" "<seeds>" [tier]: runs the checks and prints one summary line each
tier=${3:-quick}
for p in $1; do for s in $2; do
  out=$(VERIF_SEED=$s ./run.sh $p $tier 2>&1); rc=$?
  echo "$p seed=$s rc=$rc $(echo "$out" | grep -c '^VIOLATION') violations $(echo "$out" | grep -c '^KNOWN-FINDING') known :: $(echo "$out" | tail -1 | cut -c1-150)"
  echo "$out" | grep -A1 "^VIOLATION" | grep "key:" | cut -c1-200
done; done
