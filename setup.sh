#!/bin/bash
# Offline setup after a fresh restore: builds every monitor binary once (warms
# the Go build cache). Each check rebuilds what it needs from /repo anyway.
set -u
cd "$(dirname "$0")"
export GOFLAGS=-mod=mod GOPROXY=off GOSUMDB=off GOTOOLCHAIN=local
mkdir -p bin evidence replays
cp /repo/go.sum harness/go.sum
rc=0
cd harness
for d in cmd/*/; do
  n=$(basename "$d")
  if ! go build -tags verif -o ../bin/"$n" ./cmd/"$n" 2> ../bin/"$n".build.log; then
    echo "setup: build of $n failed"; head -20 ../bin/"$n".build.log; rc=1
  fi
done
exit $rc
