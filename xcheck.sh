#!/bin/bash
# xcheck.sh <Cxx> <seeded-dir-name> [tier]: runs check Cxx against /repo HEAD + seeded/<dir>/patch.diff in a scratch worktree (removed afterwards)
cd /verif
export GOFLAGS=-mod=mod GOPROXY=off GOSUMDB=off GOTOOLCHAIN=local
W=/tmp/xc-$2-$$
git -C /repo worktree add -q --detach $W HEAD || exit 3
git -C $W apply /verif/seeded/$2/patch.diff || { git -C /repo worktree remove --force $W; exit 3; }
VERIF_REPO=$W ./run.sh $1 ${3:-quick} 2>&1 | grep -E "^VIOLATION|^  key:|seed=|HARNESS" | head -${XC_LINES:-12}
rm -rf /verif/bin/alt.$(echo "$W" | md5sum | cut -c1-8)
git -C /repo worktree remove --force $W
