#!/usr/bin/env python3
"""Regenerates MANIFEST.json from the table below (kept in one place so that the
manifest is always valid). Usage: python3 mkmanifest.py"""
import json, subprocess

ALL = ["C%02d" % i for i in range(1, 21)]

# id -> dict(text, note, technique, design_ref)
CHECKS = {
 "C01": dict(
  text="Round-trip monitor over the shared box workload: 226 k inputs / 1.5 M round trips (quick), 3 M inputs (thorough) — every corpus seed (testdata files, every box cut out, ~400 hand-built instances covering all 134 registered types and their version/flag shapes, fuzz seeds) and size-consistent mutants (bit flips, field values, largesize N1, trak order N2, surplus N3, nesting) through the four decode paths and both encoders; input and output are compared on the independent walker's trees, differences must be explained by the committed don't-care list (c01_dontcare.json: reserved/pre_defined/matrix/pad masks with ISO field names, N1-N3) and the output must re-decode to an equal structure and be a fixed point; the codec configuration records are round-tripped directly. Since round 9 both tiers also run every single-bit flip of the payload of every hand-built box seed (<= 96 payload bytes, 104 k inputs), and the corpus holds 188 hand-built whole files (hdlr name shapes, encrypted fragments over tenc x seig IV sizes, several top-level sidx).",
  note="Trusts the walker's container table and the hand-pruned mask list (dead entries are reported in evidence); inputs rejected by a path are outside that path's domain; seven lossy fields are recorded known findings.",
  technique="runtime monitor: differential byte comparison of decode->encode against a committed don't-care mask list, plus fixed-point and structural re-decode oracles",
  design_ref="DESIGN.md §3 C01, §13"),
 "C02": dict(
  text="Invariant monitor over the same workload plus 10 k API-built structures (gen/frag: init, fragments, segments with 0-3 sidx, files), 0.5 M structures (quick) / 13 M (thorough): Size before, Encode, Size after, 1-3 Info calls, EncodeSW at capacity +64 and exact capacity, second Encode; lengths, idempotence, tiling of the bytes by the independent walker, and for every node of the library tree size field = Size() = own encoding = its sub-range of the parent. Further families: descriptor size limits and flag lattices (esds, dec3), byte-level readdressed fragments (trun without data_offset, tfhd base offsets), sidx recipes with 64-bit values, and observe-then-mutate histories (UUIDBox relabelling and the public mutators of twelve other box types) with a twin run without observers.",
  note="Encoders returning an error are outside the property; lazy-mdat and segment-mode files get the clauses that apply to what Encode writes.",
  technique="runtime monitor: structural invariants checked on every node of encoded trees against an independent box walker",
  design_ref="DESIGN.md §3 C02, §13"),
 "C03": dict(
  text="Differential monitor over the same workload, 1.26 M pairs (quick) / 32 M (thorough): Encode vs EncodeSW on fresh instances (identical bytes or both fail); every input canonical for one decode path must be accepted by the other path at the same level with a structurally equal tree (nothing ignored: StartPos, segments/fragments, senc state), also through 1-byte and short-chunk readers; the key sets of the two dispatch tables must coincide (hook mp4.VerifRegisteredBoxTypes).",
  note="Only inputs canonical for a path are in the domain of the cross-path clause (default decode options); the esds descriptor look-beyond is a recorded known finding.",
  technique="runtime monitor: differential execution of the two decoders and the two encoders with a reflective structural comparator",
  design_ref="DESIGN.md §3 C03, §13"),
 "C04": dict(
  text="Resource monitor over isolated worker processes: ~32 k (quick) / 2 M (thorough) structure-aware hostile mutants of the whole testdata corpus (plus crafted cross-box layouts) are pushed through every decode path/flag/mode, Info at all levels and both encoders; recovered panics, worker deaths, per-operation CPU (RUSAGE) and bytes allocated (runtime/metrics) are the observations. Held = none of them on the executions listed in evidence. Crafted families besides the mutators: count lattices, field sweeps in file context, inflated sizes, 64-bit headers with short payloads and with sizes >= 2^63, and every box type cut at byte/4-byte boundaries with its size field set to what is left and a trailer with a large leading number behind it.",
  note="Bounds cpu <= 2 s + 20 us/byte and alloc <= 8 MiB + 1 KiB/byte are deliberately loose constants (max observed ratio is in evidence); inputs <= 256 KiB; quadratic cost in nesting depth is a recorded known finding.",
  technique="runtime monitor: fuzz-style hostile workload in sandboxed workers with panic/CPU/allocation oracles",
  design_ref="DESIGN.md §3 C04"),
 "C05": dict(
  text="History monitor: 30 k (quick) / 1.5 M (thorough) generated API histories (AddFullSample/AddSample/AddSampleInterval..., single and multi-track, optimise on/off, both encoders, extra boxes) with uniquely stamped payloads are encoded, decoded by both paths and read back with GetFullSamples, and independently expanded from the bytes by ref/frag; every sample field is compared with the harness' own ground-truth model. Histories include long uniform runs, caller-owned payload slices that are poisoned after the call, and observer calls (Size, Info, Encode while no optimisation is requested) between additions.",
  note="Trusts the harness model of decode-time accumulation and ref/frag's reading of ISO/IEC 14496-12 8.8; mixed full/metadata-only fragments are outside the documented API and not generated.",
  technique="runtime monitor: recorded API histories with unique payload stamps checked against a reference model and an independent byte-level reader",
  design_ref="DESIGN.md §3 C05"),
 "C06": dict(
  text="Round-trip monitor: 5.5 k (quick) / 250 k (thorough) generated clear single-track CMAF files (AVC/HEVC from own serializers, audio, the repo's real streams; NAL size classes around every threshold, extra uuid/unknown/free boxes, pssh; keys, 8/16-byte IVs incl. counter wrap, cenc/cbcs) go through the library protocol and the mp4ff-encrypt/mp4ff-decrypt binaries; decrypted output compared sample-by-sample and box-by-box (independent walker/readers) with the same-mode re-encode of the clear input; third-party clause on the repo's encrypted files with right and wrong keys. Also: multi-track files, key rotation through one DecryptInfo, byte-level rewritten clear inputs (defaults in trex only), extra moov children, EncodeSW into caller-owned storage on either side, and sinf moved in front of the other sample-entry children.",
  note="Baseline is the clear input after the same plain encode cycles; trun data_offset is checked semantically through the sample bytes; documented refusals (avc3/hev1 with -init, multi-trun) are counted, not judged.",
  technique="runtime monitor: generated inputs with ground truth through library and tool paths, conservation/identity oracle on output bytes",
  design_ref="DESIGN.md §3 C06"),
 "C07": dict(
  text="Reference-cipher monitor: the same generated inputs as C06; the encoded encrypted file is read only with independent readers (senc/saiz/saio/tenc/schm/frma/trun) and checked clause by clause: subsample partition, clear/protected classification with the statement's thresholds (slice-header length known from the generator's serializer), saiz/saio consistency, IV advance and no counter-block reuse, protected bytes equal an independent AES-CTR / AES-CBC-pattern implementation built on the crypto/aes block function, all other bytes identical to the clear input.",
  note="Trusts ref/cenc (cross-checked against NIST SP 800-38A vectors) and the generator's own slice-header serializers for the cbcs clause; the cbcs slice-header clause is not applied to the repo's real streams.",
  technique="runtime monitor: byte-level invariant checks and differential comparison with an independent reference cipher",
  design_ref="DESIGN.md §3 C07"),
 "C08": dict(
  text="Differential monitor: the repo's files plus 2 k (quick) / 100 k (thorough) generated progressive files (compact and 64-bit mdat headers, mdat before/after moov) decoded in both modes; trees, sizes, Info dumps compared, and ReadData/CopyData/CopySampleData for all small ranges, boundary+random larger ranges and all work-buffer sizes compared with the file bytes themselves; lazy mdat Encode = header only. Further families: generated fragmented files (as built and reshaped) with all four encode modes compared mode against mode, giant and >4 GiB stretched files behind virtual readers, eight reader kinds (short reads, data+EOF, base offsets, os.File), readers not positioned at offset 0, the box-level DecodeBoxLazyMdat loop, Info at five level specs, held lazy read results.",
  note="Ground truth for every range is the input file's own bytes; sample ranges come from the independent table expansion (ref/stbl).",
  technique="runtime monitor: differential execution of the two mdat modes against ground-truth file bytes",
  design_ref="DESIGN.md §3 C08"),
 "C09": dict(
  text="Reference-model monitor: 3 k (quick) / 120 k (thorough) generated sample-table sets (run-length stts/ctts, multi-entry stsc, stsz uniform/explicit, stco/co64, stss, sdtp), installed via builders and via encode->decode; every query for every sample number, every interval (N<=48 exhaustive) and every time is compared with the naive per-sample expansion computed by ref/stbl from the encoded bytes. Plus tables-only cases with up to 2^32-byte uniform samples (expectations in math/big), zero-count and entry_count==sample_count table shapes, and results held across later queries.",
  note="Reference semantics from ISO/IEC 14496-12 8.6/8.7 and the doc comments (GetSampleNrAtTime = 1 + samples starting before t); GetSampleDescriptionID only on single-id tables.",
  technique="runtime monitor: exhaustive query sweep against a naive reference expansion of the tables",
  design_ref="DESIGN.md §3 C09"),
 "C10": dict(
  text="Black-box tool monitor: the built mp4ff-crop binary is run ~3.2 k (quick) / 160 k (thorough) times on generated multi-track progressive files with stamped samples at boundary/random durations; for every successful run the output is tiled by the independent walker, expanded by ref/stbl and compared per track with the first k input samples, k computed in exact rational arithmetic from the statement's definition of the end time.",
  note="Only exit-status-0 runs are judged; tool crashes are counted in evidence (C04-style), runs where no sync sample exists at/after the duration are inconclusive.",
  technique="runtime monitor: black-box tool runs on generated inputs with a reference-model oracle over output bytes",
  design_ref="DESIGN.md §3 C10"),
 "C11": dict(
  text="Black-box conservation monitor: the built segmenter (single/mux/lazy modes), resegmenter and combine-segs binaries and the library call MediaSegment.Fragmentify are run on generated progressive (gen/prog) and fragmented (gen/frag) inputs with stamped samples, ~1.6 k cases / 4 k tool runs (quick), 49 k cases / 115 k tool runs (thorough); all produced segments are expanded from their bytes by ref/frag, concatenated per track and compared with the generator's ground-truth sample list (bytes, size, duration, sync/flags, cto, decode time; nothing missing or extra at the end); every produced segment must start with a sync sample of the reference track.",
  note="Only successful tool runs are judged; tool crashes on inputs outside the tools' documented domain are counted in evidence (COVERAGE-NOTE); combine-segs only on inputs that do not rely on trex defaults; the resegmenter's handling of input decode-time gaps is a recorded known finding.",
  technique="runtime monitor: black-box tool runs on generated inputs, conservation oracle over independently expanded output bytes",
  design_ref="DESIGN.md §3 C11"),
 "C12": dict(
  text="Layout monitor: 5 k (quick) / 250 k (thorough) generated fragmented files (styp/sidx/mfra/emsg layouts x decode flags) with ground-truth byte positions; oracles: every moof/mdat in exactly one segment/fragment with true StartPos (strong boundary form for single-mechanism layouts), byte-identical re-encode in segment mode, and sidx tiling after UpdateSidx / the add-sidx binary read back from bytes by ref/frag. Four input families: as built, byte-level reshaped (multi-trun, multi-traf, gaps), with inserted senc/saiz/saio boxes (add-sidx -removeEnc), and stretched to 1-20 GiB behind a virtual reader in lazy mode.",
  note="Mixed delimiter layouts get only the weak grouping form (the statement does not say how mechanisms combine); durations/EPT from the harness model.",
  technique="runtime monitor: generated layouts with known byte positions, invariant oracles over decoded partition and over sidx parsed from output bytes",
  design_ref="DESIGN.md §3 C12"),
 "C13": dict(
  text="Exhaustive + random differential monitor: every byte string over {00,01,02,03,04,5A} up to length 8 (quick) / 9 (thorough) under 7 write chunkings through EBSPWriter/EBSPReader, plus 200 k / 10 M random width/value/ue/se sequences through all writer->reader pairs, compared with the independent escaper/bit model (ref/bitw) including reader position counters.",
  note="Trusts ref/bitw (ISO/IEC 14496-10 7.4.1, 9.1); widths <= 32 bits, ue <= 2^32-2.",
  technique="runtime monitor: exhaustive small-alphabet enumeration and random sequences against a reference bit/escape model",
  design_ref="DESIGN.md §3 C13"),
 "C14": dict(
  text="Reference-model monitor: NAL unit lists (all size combinations 1..40 for <=3 units in the quick tier so that every start-code alignment mod 8 and every tail length occurs, larger random lists, every 3/4-byte start-code mix, sub-slices at odd offsets with guard bytes) are rendered by ref/annexb; the word-at-a-time scanner (hook avc.VerifStartCodePositions) is compared with a byte-wise scan and every conversion/walker helper of avc and hevc with the obvious function of the generating list; in-place functions get private copies and the untouched-input clause is checked.",
  note="Trusts ref/annexb (byte-wise scanner and builders); emulation-free NAL payloads only, as the statement requires.",
  technique="runtime monitor: generated NAL unit lists as ground truth, differential comparison of the fast scanner with a byte-wise reference",
  design_ref="DESIGN.md §3 C14"),
 "C15": dict(
  text="Reference-serializer monitor: 12 k (quick) / 400 k (thorough) value records for AVC/HEVC SPS, PPS and slice headers are serialized by independent implementations of the standards' syntax tables (ref/h264, ref/h265) and parsed by the library; every coded element the parser exposes, width/height by the cropping formula, header Size, PPS->SPS id resolution with several parameter sets, configuration records (3 ways) and codec strings (parsed back) are compared; per-branch hit counts in evidence.",
  note="Trusts the serializers' reading of ISO/IEC 14496-10 7.3 / 23008-2 7.3 (each reported mismatch was confirmed against the standard text); inferred defaults are not compared; three parser defects are recorded known findings.",
  technique="runtime monitor: independent syntax serializers as oracle for the parsers over generated value records",
  design_ref="DESIGN.md §3 C15"),
 "C16": dict(
  text="Resource monitor: ~49 M evaluations (quick) of every exported byte-taking function of avc, hevc, sei, aac, av1, the protect-range helpers and the nallister/pslister binaries on valid units mutated by bit flips, truncation at every byte, forced huge Exp-Golomb values, hostile length prefixes and degenerate strings; library calls run in probe subprocesses watched for panics, CPU (<= 2 s + 20 us/byte) and bytes allocated (<= 8 MiB + 1 KiB/byte), with the looping function named in the finding.",
  note="Bounds are loose constants; inputs are small elementary-stream units; a hang class confirmed once is aborted early on repeats (presumed-repeat, counted in evidence).",
  technique="runtime monitor: fuzz-style hostile workload in sandboxed probe processes with panic/CPU/allocation oracles",
  design_ref="DESIGN.md §3 C16"),
 "C17": dict(
  text="Round-trip monitor: 150 k (quick) / 10 M (thorough) SEI message lists through WriteSEIMessages -> independent framing model (ref/sei) -> ExtractSEIData and avc/hevc ParseSEINalu, plus the complete flag lattice of the typed messages (Decode(Payload(x)) == x, Size == len(Payload)) and pass-through messages.",
  note="Trusts ref/sei framing and bit layouts; empty message lists are outside the domain (an SEI RBSP has at least one message).",
  technique="runtime monitor: generated message lists and typed-value lattice against an independent SEI framing model",
  design_ref="DESIGN.md §3 C17"),
 "C19": dict(
  text="History monitor: 40 k (quick) / 400 k (thorough) API histories (CreateEmptyInit, AddEmptyTrack x media types x languages, Set*Descriptor with parameter sets from an independent SPS serializer and real streams); invariants checked on the live structure, on the encoded bytes (independent walker/readers), on both decoded trees and by a fragment write/read-back per track.",
  note="Trusts ref/spsdim (dimensions by the standards' cropping formulas) and the byte-level readers; documented panics for unsupported media types are noted, not flagged.",
  technique="runtime monitor: generated API histories with invariant oracles on live objects, encoded bytes and decoded trees",
  design_ref="DESIGN.md §3 C19"),
 "C18": dict(
  text="Complete enumeration of the finite configuration domain executed against the real encoder/decoder, compared with an independent bit-layout model; quick enumerates the grid and boundary explicit frequencies, thorough all 2^24 explicit values per frequency field and all 12.6 M ADTS headers.",
  note="Trusts ref/bitw layouts (ISO/IEC 14496-3 Table 1.15, 13818-7 6.2) and Go's == on the decoded structs; canonical SBR/PS flags only.",
  technique="runtime monitor: exhaustive differential execution against a reference bit-layout model",
  design_ref="DESIGN.md §3 C18"),
 "C20": dict(
  text="Sanitizer + shadow-result monitor: the check binary is built with -race; each case is a concurrent round of G in {4,16,64} goroutines (GOMAXPROCS 2/8/16) looping over 19 operation kinds (decode both paths/lazy, box decode, Info, Encode/EncodeSW, GetFullSamples, table queries, encrypt, decrypt, parameter-set/slice/SEI parsing, Annex B conversions, UpdateSidx, Fragmentify) on 51 shared read-only buffers; observers: race detector reports (GORACE logs, de-duplicated), every result compared with the digest computed by fresh single-goroutine reference processes in three orders, SHA-256 canaries on the shared buffers, and a cold lockstep round for lazy initialisation. Evidence lists the operation-kind pairs seen overlapping.",
  note="Decided for the schedules the Go scheduler produced under the listed settings; race detector shadow memory is bounded (witness reads mitigate); in-place documented operations run on private copies only; a deliberate harness race self-tests that reports are collected.",
  technique="race detector (go build -race) over a concurrent stress workload plus shadow-result and canary monitors",
  design_ref="DESIGN.md §3 C20"),
}

NOT_YET = "monitor not built yet in this round (design in DESIGN.md); will be claimed once its check is silent on the unchanged tree"

def main():
    hooks_commits = []
    try:
        out = subprocess.run(["git", "-C", "/repo", "log", "--format=%H %s"], capture_output=True, text=True).stdout
        for line in out.splitlines():
            h, _, s = line.partition(" ")
            if s.startswith("verif-hook:"):
                hooks_commits.append(h)
    except Exception:
        pass
    m = {
     "version": 1,
     "setup_cmd": "./setup.sh",
     "hooks": {
      "guard": "verif",
      "enable": "go build -tags verif (run.sh builds the harness module, whose go.mod replaces github.com/Eyevinn/mp4ff with /repo, and the cmd/examples binaries, with -tags verif)",
      "baseline_off_cmd": "cd /repo && go test -vet=off -count=1 ./...",
      "source_commits": hooks_commits,
      "add_only": True,
     },
     "engines": [
      {"name": "vrunner", "path": "harness/runner", "serves_properties": sorted(CHECKS),
       "kind_free_text": "case scheduler over isolated worker processes with recover/fatal attribution, CPU watchdog, known-finding handling, evidence writer"},
     ],
     "checks": [],
     "not_applicable": [],
     "notes": "All checks: ./run.sh <id> <tier>; VERIF_SEED selects the PRNG seed (default 1). Exit 0 held / 1 VIOLATION / 2 observed nothing / 3 build or harness failure.",
    }
    for pid in ALL:
        if pid in CHECKS:
            c = CHECKS[pid]
            m["checks"].append({
             "property_id": pid,
             "quick_cmd": "./run.sh %s quick" % pid,
             "thorough_cmd": "./run.sh %s thorough" % pid,
             "evidence_file": "/verif/evidence/%s.json" % pid,
             "replay_cmd_template": "./run.sh %s --replay {path}" % pid,
             "engine": "vrunner",
             "level_claimed": {"category": "exploration", "text": c["text"], "design_ref": c["design_ref"]},
             "level_note": c["note"],
             "technique": c["technique"],
            })
        else:
            m["not_applicable"].append({"property_id": pid, "reason": NOT_YET})
    json.dump(m, open("/verif/MANIFEST.json", "w"), indent=1)
    print("MANIFEST.json: %d checks, %d not_applicable" % (len(m["checks"]), len(m["not_applicable"])))

main()
