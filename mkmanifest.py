#!/usr/bin/env python3
"""Regenerates MANIFEST.json from the table below (kept in one place so that the
manifest is always valid). Usage: python3 mkmanifest.py"""
import json, subprocess

ALL = ["C%02d" % i for i in range(1, 21)]

# id -> dict(text, note, technique, design_ref)
CHECKS = {
 "C18": dict(
  text="Complete enumeration of the finite configuration domain executed against the real encoder/decoder, compared with an independent bit-layout model; quick enumerates the grid and boundary explicit frequencies, thorough all 2^24 explicit values per frequency field and all 12.6 M ADTS headers.",
  note="Trusts ref/bitw layouts (ISO/IEC 14496-3 Table 1.15, 13818-7 6.2) and Go's == on the decoded structs; canonical SBR/PS flags only.",
  technique="runtime monitor: exhaustive differential execution against a reference bit-layout model",
  design_ref="DESIGN.md §3 C18"),
}

NOT_YET = "monitor not built yet in this round (design in DESIGN.md); will be claimed once its check is silent on the unchanged tree"

def main():
    hooks_commits = []
    try:
        out = subprocess.run(["git", "-C", "/repo", "log", "--format=%H %s"], capture_output=True, text=True).stdout
        for line in out.splitlines():
            h, _, s = line.partition(" ")
            if s.startswith("verif-hook:"):
                hooks_commits.append(h)
    except Exception:
        pass
    m = {
     "version": 1,
     "setup_cmd": "./setup.sh",
     "hooks": {
      "guard": "verif",
      "enable": "go build -tags verif (run.sh builds the harness module, whose go.mod replaces github.com/Eyevinn/mp4ff with /repo, and the cmd/examples binaries, with -tags verif)",
      "baseline_off_cmd": "cd /repo && go test -vet=off -count=1 ./...",
      "source_commits": hooks_commits,
      "add_only": True,
     },
     "engines": [
      {"name": "vrunner", "path": "harness/runner", "serves_properties": sorted(CHECKS),
       "kind_free_text": "case scheduler over isolated worker processes with recover/fatal attribution, CPU watchdog, known-finding handling, evidence writer"},
     ],
     "checks": [],
     "not_applicable": [],
     "notes": "All checks: ./run.sh <id> <tier>; VERIF_SEED selects the PRNG seed (default 1). Exit 0 held / 1 VIOLATION / 2 observed nothing / 3 build or harness failure.",
    }
    for pid in ALL:
        if pid in CHECKS:
            c = CHECKS[pid]
            m["checks"].append({
             "property_id": pid,
             "quick_cmd": "./run.sh %s quick" % pid,
             "thorough_cmd": "./run.sh %s thorough" % pid,
             "evidence_file": "/verif/evidence/%s.json" % pid,
             "replay_cmd_template": "./run.sh %s --replay {path}" % pid,
             "engine": "vrunner",
             "level_claimed": {"category": "exploration", "text": c["text"], "design_ref": c["design_ref"]},
             "level_note": c["note"],
             "technique": c["technique"],
            })
        else:
            m["not_applicable"].append({"property_id": pid, "reason": NOT_YET})
    json.dump(m, open("/verif/MANIFEST.json", "w"), indent=1)
    print("MANIFEST.json: %d checks, %d not_applicable" % (len(m["checks"]), len(m["not_applicable"])))

main()
